module verif

go 1.20

require (
	golang.org/x/text v0.9.0
	zombiezen.com/go/commonmark v0.0.0
)

require golang.org/x/net v0.8.0 // indirect

replace zombiezen.com/go/commonmark => /repo
