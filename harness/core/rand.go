// Package core holds the pieces every monitor and generator shares:
// the deterministic PRNG, the case/context types and tree helpers that
// use only the public API of the library under test.
package core

// Rand is a SplitMix64 stream. Every case is a pure function of
// (seed, generator, index), so nothing here reads the clock.
type Rand struct{ s uint64 }

func NewRand(seed uint64) *Rand { return &Rand{s: seed} }

func Mix(a ...uint64) uint64 {
	h := uint64(0x9e3779b97f4a7c15)
	for _, x := range a {
		h ^= x + 0x9e3779b97f4a7c15 + (h << 6) + (h >> 2)
		h = mix64(h)
	}
	return h
}

func mix64(z uint64) uint64 {
	z = (z ^ (z >> 30)) * 0xbf58476d1ce4e5b9
	z = (z ^ (z >> 27)) * 0x94d049bb133111eb
	return z ^ (z >> 31)
}

func (r *Rand) U64() uint64 {
	r.s += 0x9e3779b97f4a7c15
	return mix64(r.s)
}

// Intn returns a value in [0,n). n must be > 0.
func (r *Rand) Intn(n int) int {
	if n <= 1 {
		return 0
	}
	return int(r.U64() % uint64(n))
}

// Range returns a value in [lo,hi].
func (r *Rand) Range(lo, hi int) int {
	if hi <= lo {
		return lo
	}
	return lo + r.Intn(hi-lo+1)
}

func (r *Rand) Bool() bool { return r.U64()&1 == 1 }

// Chance reports true with probability num/den.
func (r *Rand) Chance(num, den int) bool { return r.Intn(den) < num }

func (r *Rand) Pick(s []string) string { return s[r.Intn(len(s))] }

func (r *Rand) Fork() *Rand { return NewRand(r.U64()) }

// HashBytes is FNV-1a 64 finished with a mixer.
func HashBytes(b []byte) uint64 {
	h := uint64(14695981039346656037)
	for _, c := range b {
		h ^= uint64(c)
		h *= 1099511628211
	}
	return mix64(h)
}

func HashString(s string) uint64 { return HashBytes([]byte(s)) }
