package core

import (
	"bytes"
	"fmt"
	"sort"
	"strconv"
	"strings"

	cm "zombiezen.com/go/commonmark"
)

// IsBlock reports whether n is a block node.
func IsBlock(n cm.Node) bool { return n.Block() != nil }

// KindName returns a printable kind name for either node type.
func KindName(n cm.Node) string {
	if b := n.Block(); b != nil {
		return b.Kind().String()
	}
	if i := n.Inline(); i != nil {
		return i.Kind().String()
	}
	return "nil"
}

// Visit is called for every node in pre-order.
type Visit func(n, parent cm.Node, depth, index int)

// WalkTree traverses through the public Node API only (not through cm.Walk,
// which is itself under test).
func WalkTree(root cm.Node, f Visit) {
	type frame struct {
		n, parent    cm.Node
		depth, index int
	}
	stack := []frame{{n: root, index: -1}}
	for len(stack) > 0 {
		fr := stack[len(stack)-1]
		stack = stack[:len(stack)-1]
		f(fr.n, fr.parent, fr.depth, fr.index)
		for i := fr.n.ChildCount() - 1; i >= 0; i-- {
			stack = append(stack, frame{n: fr.n.Child(i), parent: fr.n, depth: fr.depth + 1, index: i})
		}
	}
}

// FPOpts selects what a fingerprint includes.
type FPOpts struct {
	NoPositions bool // leave out StartLine/StartOffset/EndOffset of root blocks
}

// Fingerprint is a canonical serialisation of everything observable on the
// parse result through the public API.
func Fingerprint(blocks []*cm.RootBlock, refs cm.ReferenceMap, o FPOpts) string {
	var sb strings.Builder
	for i, rb := range blocks {
		fmt.Fprintf(&sb, "#%d ", i)
		FingerprintRoot(&sb, rb, o)
	}
	sb.WriteString(FingerprintRefs(refs))
	return sb.String()
}

func FingerprintRefs(refs cm.ReferenceMap) string {
	var sb strings.Builder
	keys := make([]string, 0, len(refs))
	for k := range refs {
		keys = append(keys, k)
	}
	sort.Strings(keys)
	sb.WriteString("refs{")
	for _, k := range keys {
		d := refs[k]
		fmt.Fprintf(&sb, "%q:%q,%q,%v;", k, d.Destination, d.Title, d.TitlePresent)
	}
	sb.WriteString("}")
	return sb.String()
}

func FingerprintRoot(sb *strings.Builder, rb *cm.RootBlock, o FPOpts) {
	if rb == nil {
		sb.WriteString("<nil root>\n")
		return
	}
	if !o.NoPositions {
		fmt.Fprintf(sb, "line=%d off=[%d,%d) ", rb.StartLine, rb.StartOffset, rb.EndOffset)
	}
	fmt.Fprintf(sb, "src=%q\n", rb.Source)
	FingerprintNode(sb, rb.Source, rb.AsNode(), 1)
}

func FingerprintNode(sb *strings.Builder, source []byte, n cm.Node, depth int) {
	var num [24]byte
	span := func(sp cm.Span) {
		sb.WriteByte('[')
		sb.Write(strconv.AppendInt(num[:0], int64(sp.Start), 10))
		sb.WriteByte(',')
		sb.Write(strconv.AppendInt(num[:0], int64(sp.End), 10))
		sb.WriteByte(')')
	}
	WalkTree(n, func(n, _ cm.Node, d, _ int) {
		for i := 0; i < depth+d; i++ {
			sb.WriteByte(' ')
		}
		sp := n.Span()
		if b := n.Block(); b != nil {
			sb.WriteString(b.Kind().String())
			span(sp)
			if l := b.HeadingLevel(); l != 0 {
				sb.WriteString(" h")
				sb.Write(strconv.AppendInt(num[:0], int64(l), 10))
			}
			if b.IsOrderedList() {
				sb.WriteString(" ord")
			}
			if b.IsTightList() {
				sb.WriteString(" tight")
			}
			if b.Kind() == cm.ListItemKind || b.IsOrderedList() {
				if nn := safeItemNumber(b, source); nn != -1 {
					sb.WriteString(" n=")
					sb.Write(strconv.AppendInt(num[:0], int64(nn), 10))
				}
			}
			if is := b.InfoString(); is != nil {
				sb.WriteString(" info=")
				sb.WriteString(strconv.Quote(safeText(is, source)))
			}
		} else if in := n.Inline(); in != nil {
			sb.WriteString(in.Kind().String())
			span(sp)
			if w := in.IndentWidth(); w != 0 {
				sb.WriteString(" w=")
				sb.Write(strconv.AppendInt(num[:0], int64(w), 10))
			}
			if r := in.LinkReference(); r != "" {
				sb.WriteString(" ref=")
				sb.WriteString(strconv.Quote(r))
			}
			if in.LinkDestination() != nil {
				sb.WriteString(" +dest")
			}
			if in.LinkTitle() != nil {
				sb.WriteString(" +title")
			}
			if in.ChildCount() == 0 || in.Kind() == cm.InfoStringKind || in.Kind() == cm.LinkDestinationKind || in.Kind() == cm.LinkTitleKind {
				sb.WriteString(" text=")
				sb.WriteString(strconv.Quote(safeText(in, source)))
			}
		}
		sb.WriteByte('\n')
	})
}

// safeItemNumber and safeText protect the fingerprint from accessor panics on
// malformed trees; a panic in an accessor is C04's business, not the
// fingerprint's.
func safeItemNumber(b *cm.Block, source []byte) (n int) {
	defer func() {
		if recover() != nil {
			n = -2
		}
	}()
	return b.ListItemNumber(source)
}

func safeText(in *cm.Inline, source []byte) (s string) {
	defer func() {
		if r := recover(); r != nil {
			s = "<panic:" + fmt.Sprint(r) + ">"
		}
	}()
	return in.Text(source)
}

// DumpBlocks is the human-readable form used in replay output.
func DumpBlocks(blocks []*cm.RootBlock, refs cm.ReferenceMap) string {
	return Fingerprint(blocks, refs, FPOpts{})
}

// ParseCopy parses a private copy of b with len == cap so that the library
// cannot write into spare capacity unnoticed by aliasing.
func ParseCopy(b []byte) ([]*cm.RootBlock, cm.ReferenceMap, []byte) {
	buf := make([]byte, len(b))
	copy(buf, b)
	blocks, refs := cm.Parse(buf)
	return blocks, refs, buf
}

// RenderCfg names one renderer configuration.
type RenderCfg struct {
	Soft      cm.SoftBreakBehavior
	IgnoreRaw bool
	Filter    func([]byte) bool
	FilterID  string
}

func (c RenderCfg) String() string {
	f := c.FilterID
	if f == "" {
		f = "nil"
	}
	return c.Soft.String() + "/raw=" + strconv.FormatBool(!c.IgnoreRaw) + "/filter=" + f
}

func (c RenderCfg) Renderer(refs cm.ReferenceMap) *cm.HTMLRenderer {
	return &cm.HTMLRenderer{ReferenceMap: refs, SoftBreakBehavior: c.Soft, IgnoreRaw: c.IgnoreRaw, FilterTag: c.Filter}
}

// Render renders all blocks with the configuration.
func Render(blocks []*cm.RootBlock, refs cm.ReferenceMap, cfg RenderCfg) ([]byte, error) {
	var buf bytes.Buffer
	err := cfg.Renderer(refs).Render(&buf, blocks)
	return buf.Bytes(), err
}

// RenderDefault renders with the zero-value configuration.
func RenderDefault(blocks []*cm.RootBlock, refs cm.ReferenceMap) []byte {
	out, _ := Render(blocks, refs, RenderCfg{})
	return out
}

// RenderSafe renders with IgnoreRaw.
func RenderSafe(blocks []*cm.RootBlock, refs cm.ReferenceMap) []byte {
	out, _ := Render(blocks, refs, RenderCfg{IgnoreRaw: true})
	return out
}

// TreeStats summarises a parsed document.
type TreeStats struct {
	Nodes    int
	MaxDepth int
	Kinds    map[string]int
}

func Stats(blocks []*cm.RootBlock) TreeStats {
	st := TreeStats{Kinds: map[string]int{}}
	for _, rb := range blocks {
		WalkTree(rb.AsNode(), func(n, _ cm.Node, d, _ int) {
			st.Nodes++
			if d > st.MaxDepth {
				st.MaxDepth = d
			}
			st.Kinds[KindName(n)]++
		})
	}
	return st
}

// CountKinds adds per-kind node counts to the context's counters under prefix.
func CountKinds(ctx *Ctx, prefix string, blocks []*cm.RootBlock) {
	for _, rb := range blocks {
		WalkTree(rb.AsNode(), func(n, _ cm.Node, _, _ int) {
			ctx.Counters[prefix+KindName(n)]++
		})
	}
}

// Quote renders bytes for messages, shortened.
func Quote(b []byte) string {
	if len(b) > 160 {
		return strconv.Quote(string(b[:160])) + fmt.Sprintf("...(%d bytes)", len(b))
	}
	return strconv.Quote(string(b))
}
