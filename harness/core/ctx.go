package core

import (
	"fmt"
	"sort"
)

// Case is one execution to be observed.
type Case struct {
	Gen   string // generator name (or "directed", "replay")
	Index uint64 // index within the generator
	Seed  uint64 // per-case seed for the monitor's own choices (configs, schedules, policies)
	Input []byte
	Note  string // provenance, for samples and replay files
}

type Violation struct {
	Code string `json:"code"`
	Msg  string `json:"msg"`
}

// Segment is a contiguous index range of one generator.
type Segment struct {
	Gen        string // generator name as registered in package gen
	Profile    string // generator profile / alphabet
	Count      uint64
	Exhaustive bool   // the segment enumerates a finite space completely
	Desc       string // for the evidence
	Batch      uint64 // cases per child process (0 = default)
	Race       bool   // run this segment with the -race build
}

type Directed struct {
	Input []byte
	Note  string
}

// Monitor is one property's oracle plus its workload plan.
type Monitor interface {
	ID() string
	Rule() string
	Plan(tier string) []Segment
	Directed() []Directed
	Check(ctx *Ctx, c *Case)
}

// Gater is implemented by monitors that need coverage gates: a run which did
// not observe what it claims to have observed is inconclusive (exit 2).
type Gater interface {
	Gates(tier string, counters map[string]int64) []string
}

// Ctx collects what a monitor observes. One Ctx lives for a whole batch in a
// worker; the per-case part is reset by Begin.
type Ctx struct {
	Tier     string
	Verbose  bool
	Counters map[string]int64
	Maxes    map[string]int64
	Log      func(format string, a ...any) // verbose output (replay)

	viol         []Violation
	nontrivial   bool
	skipped      string
	inconclusive string
	recorded     map[string][]string // recorded-not-judged observations: key -> first examples
}

func NewCtx(tier string) *Ctx {
	return &Ctx{
		Tier:     tier,
		Counters: map[string]int64{},
		Maxes:    map[string]int64{},
		recorded: map[string][]string{},
		Log:      func(string, ...any) {},
	}
}

func (c *Ctx) Begin() {
	c.viol = c.viol[:0]
	c.nontrivial = false
	c.skipped = ""
	c.inconclusive = ""
}

func (c *Ctx) Count(key string, n int64) { c.Counters[key] += n }
func (c *Ctx) Inc(key string)            { c.Counters[key]++ }
func (c *Ctx) Max(key string, v int64) {
	if v > c.Maxes[key] {
		c.Maxes[key] = v
	}
}

// Violation reports that the property is refuted by the current case.
func (c *Ctx) Violation(code, format string, a ...any) {
	if len(c.viol) >= 8 {
		return
	}
	c.viol = append(c.viol, Violation{Code: code, Msg: fmt.Sprintf(format, a...)})
}

// Record notes an observation that is reported in the evidence but does not
// affect the verdict (rules that the statement itself does not make).
func (c *Ctx) Record(key, format string, a ...any) {
	c.Counters["recorded:"+key]++
	if ex := c.recorded[key]; len(ex) < 3 {
		c.recorded[key] = append(ex, fmt.Sprintf(format, a...))
	}
}

func (c *Ctx) NonTrivial()                   { c.nontrivial = true }
func (c *Ctx) Skip(reason string)            { c.skipped = reason }
func (c *Ctx) Inconclusive(r string)         { c.inconclusive = r }
func (c *Ctx) Violations() []Violation       { return c.viol }
func (c *Ctx) IsNonTrivial() bool            { return c.nontrivial }
func (c *Ctx) Skipped() string               { return c.skipped }
func (c *Ctx) IsInconclusive() string        { return c.inconclusive }
func (c *Ctx) Failed() bool                  { return len(c.viol) > 0 }
func (c *Ctx) Recorded() map[string][]string { return c.recorded }

// FirstCode returns the code of the first violation, or "".
func (c *Ctx) FirstCode() string {
	if len(c.viol) == 0 {
		return ""
	}
	return c.viol[0].Code
}

var monitors = map[string]Monitor{}

func Register(m Monitor) { monitors[m.ID()] = m }

func Lookup(id string) Monitor { return monitors[id] }

func MonitorIDs() []string {
	var ids []string
	for id := range monitors {
		ids = append(ids, id)
	}
	sort.Strings(ids)
	return ids
}

// RaceEnabled is set by the binary's main package when built with -race.
var RaceEnabled bool
