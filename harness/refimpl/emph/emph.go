// Package emph is a literal transcription of CommonMark 0.30 section 6.2
// (delimiter runs, left/right flanking, can open / can close) and of the
// "process emphasis" procedure of the spec's appendix, WITHOUT the
// openers_bottom search bound: every search for an opener goes down to the
// bottom of the stack. It handles paragraphs made of '*', '_' and other
// characters that have no inline meaning of their own.
package emph

import (
	"strings"
	"unicode"
	"unicode/utf8"
)

func isWhitespace(r rune) bool {
	// "A Unicode whitespace character is any code point in the Unicode Zs general
	// category, or a tab (U+0009), line feed (U+000A), form feed (U+000C), or
	// carriage return (U+000D)."
	return unicode.Is(unicode.Zs, r) || r == '\t' || r == '\n' || r == '\f' || r == '\r'
}

const asciiPunct = "!\"#$%&'()*+,-./:;<=>?@[\\]^_`{|}~"

func isPunctuation(r rune) bool {
	// "A Unicode punctuation character is an ASCII punctuation character or anything
	// in the general Unicode categories Pc, Pd, Pe, Pf, Pi, Po, or Ps."
	if r < 0x80 {
		return strings.ContainsRune(asciiPunct, r)
	}
	return unicode.In(r, unicode.Pc, unicode.Pd, unicode.Pe, unicode.Pf, unicode.Pi, unicode.Po, unicode.Ps)
}

// Flags computes can-open / can-close for the delimiter run s[start:end].
func Flags(s string, start, end int) (canOpen, canClose bool) {
	// "the beginning and the end of the line count as Unicode whitespace"
	before, after := ' ', ' '
	if start > 0 {
		before, _ = utf8.DecodeLastRuneInString(s[:start])
	}
	if end < len(s) {
		after, _ = utf8.DecodeRuneInString(s[end:])
	}
	left := !isWhitespace(after) && (!isPunctuation(after) || isWhitespace(before) || isPunctuation(before))
	right := !isWhitespace(before) && (!isPunctuation(before) || isWhitespace(after) || isPunctuation(after))
	if s[start] == '*' {
		return left, right
	}
	return left && (!right || isPunctuation(before)), right && (!left || isPunctuation(after))
}

type node struct {
	text       string // literal text (for delimiter nodes: the remaining delimiter characters)
	open       string // "<em>" etc. for element markers
	prev, next *node
}

type delim struct {
	n        *node
	char     byte
	orig     int // original length of the run
	canOpen  bool
	canClose bool
	removed  bool
}

// Structure returns the emphasis structure of the paragraph text s as a string
// in which <em>, </em>, <strong>, </strong> mark the elements and everything
// else is literal text.
func Structure(s string) string {
	head := &node{}
	tail := head
	add := func(n *node) {
		n.prev = tail
		tail.next = n
		tail = n
	}
	var stack []*delim
	for i := 0; i < len(s); {
		c := s[i]
		if c == '*' || c == '_' {
			j := i
			for j < len(s) && s[j] == c {
				j++
			}
			n := &node{text: s[i:j]}
			add(n)
			o, cl := Flags(s, i, j)
			stack = append(stack, &delim{n: n, char: c, orig: j - i, canOpen: o, canClose: cl})
			i = j
			continue
		}
		j := i
		for j < len(s) && s[j] != '*' && s[j] != '_' {
			j++
		}
		add(&node{text: s[i:j]})
		i = j
	}

	// process emphasis with stack_bottom = nil and no openers_bottom
	live := func() []*delim {
		var out []*delim
		for _, d := range stack {
			if !d.removed {
				out = append(out, d)
			}
		}
		return out
	}
	cur := 0
	for {
		st := live()
		// move current_position forward until the first potential closer
		for cur < len(st) && !st[cur].canClose {
			cur++
		}
		if cur >= len(st) {
			break
		}
		closer := st[cur]
		// look back for the first matching potential opener
		oi := cur - 1
		for ; oi >= 0; oi-- {
			op := st[oi]
			if op.char != closer.char || !op.canOpen {
				continue
			}
			// "If one of the delimiters can both open and close emphasis, then the sum of
			// the lengths of the delimiter runs containing the opening and closing
			// delimiters must not be a multiple of 3 unless both lengths are multiples of 3."
			if (op.canClose || closer.canOpen) && (op.orig+closer.orig)%3 == 0 && !(op.orig%3 == 0 && closer.orig%3 == 0) {
				continue
			}
			break
		}
		if oi >= 0 {
			op := st[oi]
			strong := len(op.n.text) >= 2 && len(closer.n.text) >= 2
			use := 1
			tagO, tagC := "<em>", "</em>"
			if strong {
				use, tagO, tagC = 2, "<strong>", "</strong>"
			}
			// insert the element markers: after the opener's text node, before the closer's
			on := &node{open: tagO, prev: op.n, next: op.n.next}
			op.n.next.prev = on
			op.n.next = on
			cn := &node{open: tagC, prev: closer.n.prev, next: closer.n}
			closer.n.prev.next = cn
			closer.n.prev = cn
			// remove any delimiters between the opener and closer from the delimiter stack
			for k := oi + 1; k < cur; k++ {
				st[k].removed = true
			}
			// remove 1 or 2 delimiters from the opening and closing text nodes
			op.n.text = op.n.text[use:]
			closer.n.text = closer.n.text[use:]
			newCur := oi + 1 // position of the closer after the removals
			if len(op.n.text) == 0 {
				op.removed = true
				newCur--
			}
			if len(closer.n.text) == 0 {
				closer.removed = true
				// "If the closing node is removed, reset current_position to the next element in the stack."
			}
			cur = newCur
		} else {
			// no opener: "If the closer at current_position is not a potential opener,
			// remove it from the delimiter stack"; advance current_position
			if !closer.canOpen {
				closer.removed = true
			} else {
				cur++
			}
		}
	}

	var sb strings.Builder
	for n := head.next; n != nil; n = n.next {
		if n.open != "" {
			sb.WriteString(n.open)
		} else {
			sb.WriteString(n.text)
		}
	}
	return sb.String()
}
