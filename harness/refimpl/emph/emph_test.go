package emph

import (
	"encoding/json"
	"html"
	"os"
	"strings"
	"testing"
)

func TestSpecExamples(t *testing.T) {
	data, err := os.ReadFile("../../../fixtures/spec-0.30.json")
	if err != nil {
		t.Skip(err)
	}
	var ex []struct {
		Markdown, HTML, Section string
		Example                 int
	}
	if err := json.Unmarshal(data, &ex); err != nil {
		t.Fatal(err)
	}
	n := 0
	for _, e := range ex {
		if e.Section != "Emphasis and strong emphasis" {
			continue
		}
		md := strings.TrimSuffix(e.Markdown, "\n")
		if strings.ContainsAny(md, "\n[]<>`\\&!") {
			continue
		}
		if strings.HasPrefix(md, "* ") || strings.HasPrefix(md, "- ") || strings.HasPrefix(md, "+ ") {
			continue
		}
		want := strings.TrimSuffix(strings.TrimPrefix(strings.TrimSuffix(e.HTML, "\n"), "<p>"), "</p>")
		want = html.UnescapeString(want)
		got := Structure(md)
		n++
		if got != want {
			t.Errorf("example %d: %q\n got  %q\n want %q", e.Example, md, got, want)
		}
	}
	t.Logf("%d examples checked", n)
	if n < 90 {
		t.Errorf("only %d examples applicable", n)
	}
}
