// Package htmltok is a WHATWG HTML tokenizer held in the data state: it reads
// bytes the way a browser's tokenizer does before any tree-builder feedback
// (no RCDATA/RAWTEXT/script-data/PLAINTEXT switch; CDATA sections are bogus
// comments, as in HTML content). See DESIGN.md Appendix B.
package htmltok

import "strings"

type Kind int

const (
	Text Kind = iota
	StartTag
	EndTag
	Comment
	Doctype
)

func (k Kind) String() string {
	return [...]string{"text", "start", "end", "comment", "doctype"}[k]
}

type Attr struct {
	Name  string // lower-cased
	Value string // raw, character references not decoded
	// Quote is '"', '\'' or 0 for unquoted / missing values.
	Quote byte
}

type Token struct {
	Kind        Kind
	Name        string // lower-cased tag name
	Attrs       []Attr
	SelfClosing bool
	Data        string // text or comment data (raw)
	Start, End  int    // byte range in the input
}

func isLetter(c byte) bool { return c >= 'a' && c <= 'z' || c >= 'A' && c <= 'Z' }
func isWS(c byte) bool     { return c == '\t' || c == '\n' || c == '\f' || c == ' ' || c == '\r' }

func lower(s string) string {
	// ASCII lower-casing only, as the tokenizer does.
	hasUpper := false
	for i := 0; i < len(s); i++ {
		if s[i] >= 'A' && s[i] <= 'Z' {
			hasUpper = true
			break
		}
	}
	if !hasUpper {
		return s
	}
	b := []byte(s)
	for i, c := range b {
		if c >= 'A' && c <= 'Z' {
			b[i] = c + 'a' - 'A'
		}
	}
	return string(b)
}

// Tokenize returns the token sequence of s. Adjacent text is merged.
func Tokenize(s string) []Token {
	var toks []Token
	textStart := 0
	flushText := func(end int) {
		if end > textStart {
			if n := len(toks); n > 0 && toks[n-1].Kind == Text && toks[n-1].End == textStart {
				toks[n-1].Data += s[textStart:end]
				toks[n-1].End = end
			} else {
				toks = append(toks, Token{Kind: Text, Data: s[textStart:end], Start: textStart, End: end})
			}
		}
	}
	i := 0
	n := len(s)
	for i < n {
		if s[i] != '<' {
			i++
			continue
		}
		// tag open state
		lt := i
		if i+1 >= n {
			i++ // '<' at EOF is text
			continue
		}
		c := s[i+1]
		switch {
		case isLetter(c):
			tok, end, ok := scanTag(s, i+1, StartTag)
			flushText(lt)
			if ok {
				tok.Start, tok.End = lt, end
				toks = append(toks, tok)
			}
			// eof-in-tag: nothing emitted, input consumed
			i = end
			textStart = i
		case c == '/':
			if i+2 >= n {
				// "</" at EOF is text
				i = n
				continue
			}
			c2 := s[i+2]
			switch {
			case isLetter(c2):
				tok, end, ok := scanTag(s, i+2, EndTag)
				flushText(lt)
				if ok {
					tok.Start, tok.End = lt, end
					toks = append(toks, tok)
				}
				i = end
				textStart = i
			case c2 == '>':
				flushText(lt)
				i += 3
				textStart = i
			default:
				// bogus comment up to '>' or EOF
				flushText(lt)
				end := strings.IndexByte(s[i+2:], '>')
				if end < 0 {
					toks = append(toks, Token{Kind: Comment, Data: s[i+2:], Start: lt, End: n})
					i = n
				} else {
					toks = append(toks, Token{Kind: Comment, Data: s[i+2 : i+2+end], Start: lt, End: i + 2 + end + 1})
					i = i + 2 + end + 1
				}
				textStart = i
			}
		case c == '!':
			flushText(lt)
			rest := s[i+2:]
			switch {
			case strings.HasPrefix(rest, "--"):
				// comment start state
				j := i + 4
				switch {
				case j < n && s[j] == '>':
					toks = append(toks, Token{Kind: Comment, Start: lt, End: j + 1})
					i = j + 1
				case j+1 < n && s[j] == '-' && s[j+1] == '>':
					toks = append(toks, Token{Kind: Comment, Start: lt, End: j + 2})
					i = j + 2
				default:
					// ends at the first "-->" or "--!>"; EOF ends it
					end := -1
					endLen := 0
					for k := j; k+2 < n+1; k++ {
						if strings.HasPrefix(s[k:], "-->") {
							end, endLen = k, 3
							break
						}
						if strings.HasPrefix(s[k:], "--!>") {
							end, endLen = k, 4
							break
						}
					}
					if end < 0 {
						toks = append(toks, Token{Kind: Comment, Data: s[j:], Start: lt, End: n})
						i = n
					} else {
						toks = append(toks, Token{Kind: Comment, Data: s[j:end], Start: lt, End: end + endLen})
						i = end + endLen
					}
				}
			case len(rest) >= 7 && strings.EqualFold(rest[:7], "doctype"):
				end := strings.IndexByte(s[i:], '>')
				if end < 0 {
					toks = append(toks, Token{Kind: Doctype, Data: s[i+2:], Start: lt, End: n})
					i = n
				} else {
					toks = append(toks, Token{Kind: Doctype, Data: s[i+2 : i+end], Start: lt, End: i + end + 1})
					i = i + end + 1
				}
			default:
				// bogus comment, incl. <![CDATA[ in HTML content
				end := strings.IndexByte(s[i+2:], '>')
				if end < 0 {
					toks = append(toks, Token{Kind: Comment, Data: s[i+2:], Start: lt, End: n})
					i = n
				} else {
					toks = append(toks, Token{Kind: Comment, Data: s[i+2 : i+2+end], Start: lt, End: i + 2 + end + 1})
					i = i + 2 + end + 1
				}
			}
			textStart = i
		case c == '?':
			flushText(lt)
			end := strings.IndexByte(s[i+1:], '>')
			if end < 0 {
				toks = append(toks, Token{Kind: Comment, Data: s[i+1:], Start: lt, End: n})
				i = n
			} else {
				toks = append(toks, Token{Kind: Comment, Data: s[i+1 : i+1+end], Start: lt, End: i + 1 + end + 1})
				i = i + 1 + end + 1
			}
			textStart = i
		default:
			// '<' followed by anything else is text
			i++
		}
	}
	flushText(n)
	return toks
}

// scanTag scans from the first letter of the tag name. It returns the token,
// the index after the tag (or len(s) at EOF) and whether the tag was emitted
// (false: EOF inside the tag).
func scanTag(s string, p int, kind Kind) (Token, int, bool) {
	n := len(s)
	tok := Token{Kind: kind}
	start := p
	for p < n && !isWS(s[p]) && s[p] != '/' && s[p] != '>' {
		p++
	}
	tok.Name = lower(s[start:p])
	for {
		// before attribute name
		for p < n && isWS(s[p]) {
			p++
		}
		if p >= n {
			return tok, n, false
		}
		switch s[p] {
		case '>':
			return tok, p + 1, true
		case '/':
			// self-closing start tag state
			if p+1 < n && s[p+1] == '>' {
				tok.SelfClosing = true
				return tok, p + 2, true
			}
			if p+1 >= n {
				return tok, n, false
			}
			p++ // unexpected solidus: reconsume in before attribute name
			continue
		}
		// attribute name (a leading '=' is part of the name)
		as := p
		if s[p] == '=' {
			p++
		}
		for p < n && !isWS(s[p]) && s[p] != '/' && s[p] != '>' && s[p] != '=' {
			p++
		}
		attr := Attr{Name: lower(s[as:p])}
		// after attribute name
		for p < n && isWS(s[p]) {
			p++
		}
		if p >= n {
			return tok, n, false
		}
		if s[p] == '=' {
			p++
			for p < n && isWS(s[p]) {
				p++
			}
			if p >= n {
				return tok, n, false
			}
			switch s[p] {
			case '"', '\'':
				q := s[p]
				p++
				vs := p
				for p < n && s[p] != q {
					p++
				}
				if p >= n {
					return tok, n, false
				}
				attr.Value, attr.Quote = s[vs:p], q
				p++
			case '>':
				// missing attribute value
				tok.Attrs = append(tok.Attrs, attr)
				return tok, p + 1, true
			default:
				vs := p
				for p < n && !isWS(s[p]) && s[p] != '>' {
					p++
				}
				attr.Value = s[vs:p]
			}
		}
		tok.Attrs = append(tok.Attrs, attr)
	}
}

// StartTagNames lists the lower-cased names of all start tags in s.
func StartTagNames(s string) []string {
	var out []string
	for _, t := range Tokenize(s) {
		if t.Kind == StartTag {
			out = append(out, t.Name)
		}
	}
	return out
}
