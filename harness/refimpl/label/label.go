// Package label is an independent implementation of CommonMark 0.30 link
// label normalisation: strip leading and trailing spaces, tabs and line
// endings, collapse internal runs of them to one space, and apply the
// Unicode full case folding. The folding table is a committed fixture
// generated from python3's str.casefold (Unicode 14.0).
package label

import (
	"bufio"
	"os"
	"strconv"
	"strings"
	"sync"

	"golang.org/x/text/cases"
)

var (
	once  sync.Once
	table map[rune]string
	// agreed caches, per rune, whether the fixture and golang.org/x/text (the
	// library's table, Unicode 13) fold the rune identically. Labels holding a
	// rune on which they differ are outside the oracle's domain.
	agreeMu sync.Mutex
	agreed  = map[rune]bool{}
)

// Load reads the fixture; path is fixtures/casefold.tsv.
func Load(path string) {
	once.Do(func() {
		table = map[rune]string{}
		f, err := os.Open(path)
		if err != nil {
			panic(err)
		}
		defer f.Close()
		sc := bufio.NewScanner(f)
		for sc.Scan() {
			line := sc.Text()
			if line == "" || line[0] == '#' {
				continue
			}
			parts := strings.Split(line, "\t")
			cp, err := strconv.ParseUint(parts[0], 16, 32)
			if err != nil {
				panic(err)
			}
			var sb strings.Builder
			for _, h := range strings.Fields(parts[1]) {
				v, err := strconv.ParseUint(h, 16, 32)
				if err != nil {
					panic(err)
				}
				sb.WriteRune(rune(v))
			}
			table[rune(cp)] = sb.String()
		}
		if len(table) < 1400 {
			panic("casefold fixture incomplete")
		}
	})
}

func isWS(c byte) bool { return c == ' ' || c == '\t' || c == '\n' || c == '\r' }

// Fold applies the fixture's full case folding.
func Fold(s string) string {
	var sb strings.Builder
	for _, r := range s {
		if f, ok := table[r]; ok {
			sb.WriteString(f)
		} else {
			sb.WriteRune(r)
		}
	}
	return sb.String()
}

// Normalize returns the normal form of a label's text (without brackets).
func Normalize(s string) string {
	i, j := 0, len(s)
	for i < j && isWS(s[i]) {
		i++
	}
	for j > i && isWS(s[j-1]) {
		j--
	}
	var sb strings.Builder
	for k := i; k < j; k++ {
		if isWS(s[k]) {
			sb.WriteByte(' ')
			for k+1 < j && isWS(s[k+1]) {
				k++
			}
		} else {
			sb.WriteByte(s[k])
		}
	}
	return Fold(sb.String())
}

// InDomain reports whether every rune of s is folded identically by the
// fixture and by golang.org/x/text/cases (and s is valid UTF-8 without U+FFFD
// produced by decoding errors).
func InDomain(s string) bool {
	for i, r := range s {
		if r == 0xFFFD && !strings.HasPrefix(s[i:], "�") {
			return false // invalid UTF-8
		}
		agreeMu.Lock()
		ok, seen := agreed[r]
		agreeMu.Unlock()
		if !seen {
			mine, has := table[r]
			if !has {
				mine = string(r)
			}
			ok = cases.Fold().String(string(r)) == mine
			agreeMu.Lock()
			agreed[r] = ok
			agreeMu.Unlock()
		}
		if !ok {
			return false
		}
	}
	return true
}

// IsNormal reports whether k could be the output of Normalize: no leading,
// trailing or doubled space, no tab / line ending, and folding is idempotent
// on it.
func IsNormal(k string) bool {
	if k == "" || k[0] == ' ' || k[len(k)-1] == ' ' || strings.Contains(k, "  ") || strings.ContainsAny(k, "\t\r\n") {
		return false
	}
	return Fold(k) == k
}
