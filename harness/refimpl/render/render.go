// Package render is an independent reading of a parsed tree into HTML,
// through the public node API only. It produces a list of segments so that
// the places where the library has freedom (which '<' of raw HTML a tag filter
// escapes; spelling choices the documentation leaves open) are explicit.
package render

import (
	"bytes"
	"regexp"
	"strconv"
	"strings"
	"unicode/utf8"

	cm "zombiezen.com/go/commonmark"
)

type SegKind int

const (
	Fixed SegKind = iota // bytes must appear exactly
	Raw                  // raw HTML: bytes, with any subset of '<' written "&lt;" when a filter is set
	Alt                  // one of several spellings
)

type Seg struct {
	Kind SegKind
	B    []byte
	Alts [][]byte
}

type Config struct {
	Soft      cm.SoftBreakBehavior
	IgnoreRaw bool
	Filter    func([]byte) bool // nil: no filtering
}

type renderer struct {
	cfg  Config
	refs cm.ReferenceMap
	src  []byte
	out  []Seg
}

func (r *renderer) fixed(s string) {
	if n := len(r.out); n > 0 && r.out[n-1].Kind == Fixed {
		r.out[n-1].B = append(r.out[n-1].B, s...)
		return
	}
	r.out = append(r.out, Seg{Kind: Fixed, B: []byte(s)})
}

func (r *renderer) raw(b []byte) {
	r.out = append(r.out, Seg{Kind: Raw, B: append([]byte(nil), b...)})
}

func (r *renderer) alt(options ...string) {
	// collapse identical options
	var uniq [][]byte
	for _, o := range options {
		dup := false
		for _, u := range uniq {
			if string(u) == o {
				dup = true
			}
		}
		if !dup {
			uniq = append(uniq, []byte(o))
		}
	}
	if len(uniq) == 1 {
		r.fixed(string(uniq[0]))
		return
	}
	r.out = append(r.out, Seg{Kind: Alt, Alts: uniq})
}

// EscText is the renderer's spelling of escaped text.
func EscText(s string) string {
	var sb strings.Builder
	for i := 0; i < len(s); i++ {
		switch s[i] {
		case '&':
			sb.WriteString("&amp;")
		case '\'':
			sb.WriteString("&#39;")
		case '<':
			sb.WriteString("&lt;")
		case '>':
			sb.WriteString("&gt;")
		case '"':
			sb.WriteString("&quot;")
		default:
			sb.WriteByte(s[i])
		}
	}
	return sb.String()
}

// EscAttr is the renderer's spelling of escaped attribute values.
func EscAttr(s string) string {
	return strings.ReplaceAll(EscText(s), "&quot;", "&#34;")
}

func isHex(c byte) bool {
	return c >= '0' && c <= '9' || c >= 'a' && c <= 'f' || c >= 'A' && c <= 'F'
}

// NormalizeURI is my own percent-encoder: RFC 3986 unreserved and reserved
// characters (without the brackets) and well-formed percent escapes are kept,
// everything else is UTF-8 percent-encoded in upper case; bytes that are not
// valid UTF-8 are encoded as U+FFFD.
func NormalizeURI(s string) string {
	const keep = ";/?:@&=+$,-_.!~*'()#"
	const hexd = "0123456789ABCDEF"
	var sb strings.Builder
	for i := 0; i < len(s); {
		c := s[i]
		switch {
		case c == '%' && i+2 < len(s) && isHex(s[i+1]) && isHex(s[i+2]):
			sb.WriteString(s[i : i+3])
			i += 3
		case c == '%':
			sb.WriteString("%25")
			i++
		case c < 0x80 && (c >= 'a' && c <= 'z' || c >= 'A' && c <= 'Z' || c >= '0' && c <= '9' || strings.IndexByte(keep, c) >= 0):
			sb.WriteByte(c)
			i++
		default:
			rn, n := utf8.DecodeRuneInString(s[i:])
			enc := s[i : i+n]
			if rn == utf8.RuneError && n == 1 {
				enc = "\xef\xbf\xbd"
			}
			for k := 0; k < len(enc); k++ {
				sb.WriteByte('%')
				sb.WriteByte(hexd[enc[k]>>4])
				sb.WriteByte(hexd[enc[k]&15])
			}
			i += n
		}
	}
	return sb.String()
}

var reEmail = regexp.MustCompile("^[a-zA-Z0-9.!#$%&'*+/=?^_`{|}~-]+@[a-zA-Z0-9](?:[a-zA-Z0-9-]{0,61}[a-zA-Z0-9])?(?:\\.[a-zA-Z0-9](?:[a-zA-Z0-9-]{0,61}[a-zA-Z0-9])?)*$")

func (r *renderer) open(name string, attrs string) {
	if r.cfg.Filter != nil && r.cfg.Filter([]byte(name)) {
		r.fixed("&lt;" + name + attrs + ">")
	} else {
		r.fixed("<" + name + attrs + ">")
	}
}

// close writes an end tag. For an element whose name the predicate rejects
// the documentation speaks only of the leading bracket "of an element";
// either spelling of the end tag is accepted.
func (r *renderer) close(name string) {
	if r.cfg.Filter != nil {
		r.alt("</"+name+">", "&lt;/"+name+">")
		return
	}
	r.fixed("</" + name + ">")
}

func (r *renderer) text(in *cm.Inline) string {
	sp := in.Span()
	return string(r.src[sp.Start:sp.End])
}

func firstField(s string, unicodeWS bool) string {
	if unicodeWS {
		if f := strings.Fields(s); len(f) > 0 {
			return f[0]
		}
		return ""
	}
	s = strings.TrimLeft(s, " \t\r\n")
	if i := strings.IndexAny(s, " \t\r\n"); i >= 0 {
		s = s[:i]
	}
	return s
}

func (r *renderer) block(b *cm.Block, parent *cm.Block) {
	switch b.Kind() {
	case cm.ParagraphKind:
		tight := parent != nil && parent.Kind() == cm.ListItemKind && parent.IsTightList()
		if !tight {
			r.open("p", "")
		}
		r.inlineChildren(b.AsNode())
		if !tight {
			r.close("p")
		}
	case cm.ThematicBreakKind:
		r.open("hr", "")
	case cm.ATXHeadingKind, cm.SetextHeadingKind:
		lvl := b.HeadingLevel()
		if lvl < 1 || lvl > 6 {
			lvl = 6
		}
		h := "h" + strconv.Itoa(lvl)
		r.open(h, "")
		r.inlineChildren(b.AsNode())
		r.close(h)
	case cm.IndentedCodeBlockKind, cm.FencedCodeBlockKind:
		r.open("pre", "")
		// the class attribute has two acceptable spellings when the info string
		// holds Unicode white space; build the start tag by hand
		lt := "<"
		if r.cfg.Filter != nil && r.cfg.Filter([]byte("code")) {
			lt = "&lt;"
		}
		if is := b.InfoString(); is != nil {
			info := is.Text(r.src)
			a, u := firstField(info, false), firstField(info, true)
			mk := func(w string) string {
				if w == "" {
					return lt + "code>"
				}
				return lt + `code class="language-` + EscAttr(w) + `">`
			}
			r.alt(mk(u), mk(a))
		} else {
			r.fixed(lt + "code>")
		}
		for i := 0; i < b.ChildCount(); i++ {
			in := b.Child(i).Inline()
			if in == nil || in.Kind() == cm.InfoStringKind {
				continue
			}
			r.inline(in, false)
		}
		r.close("code")
		r.close("pre")
	case cm.BlockQuoteKind:
		r.open("blockquote", "")
		r.blockChildren(b)
		r.close("blockquote")
	case cm.ListKind:
		if b.IsOrderedList() {
			attrs := ""
			if b.ChildCount() > 0 {
				if first := b.Child(0).Block(); first != nil {
					if n := first.ListItemNumber(r.src); n >= 0 && n != 1 {
						attrs = ` start="` + strconv.Itoa(n) + `"`
					}
				}
			}
			r.open("ol", attrs)
			r.blockChildren(b)
			r.close("ol")
		} else {
			r.open("ul", "")
			r.blockChildren(b)
			r.close("ul")
		}
	case cm.ListItemKind:
		r.open("li", "")
		r.blockChildren(b)
		r.close("li")
	case cm.HTMLBlockKind:
		if r.cfg.IgnoreRaw {
			return
		}
		for i := 0; i < b.ChildCount(); i++ {
			if in := b.Child(i).Inline(); in != nil {
				r.inline(in, false)
			}
		}
	case cm.LinkReferenceDefinitionKind, cm.ListMarkerKind:
		// nothing
	}
}

func (r *renderer) blockChildren(b *cm.Block) {
	for i := 0; i < b.ChildCount(); i++ {
		if cb := b.Child(i).Block(); cb != nil {
			r.block(cb, b)
		} else if in := b.Child(i).Inline(); in != nil {
			r.inline(in, false)
		}
	}
}

func (r *renderer) inlineChildren(n cm.Node) {
	for i := 0; i < n.ChildCount(); i++ {
		if in := n.Child(i).Inline(); in != nil {
			r.inline(in, false)
		}
	}
}

func (r *renderer) linkDef(in *cm.Inline) (dest, title string, hasTitle bool) {
	if ref := in.LinkReference(); ref != "" {
		d := r.refs[ref]
		return d.Destination, d.Title, d.TitlePresent
	}
	if d := in.LinkDestination(); d != nil {
		dest = d.Text(r.src)
	}
	if t := in.LinkTitle(); t != nil {
		title, hasTitle = t.Text(r.src), true
	}
	return
}

// altText returns the plain-text description of an image: leaf text of all
// descendants other than destination/title/label, breaks and indents as one
// space. withRaw selects whether raw HTML leaves contribute their text.
func (r *renderer) altText(in *cm.Inline, withRaw bool, sb *strings.Builder) {
	for i := 0; i < in.ChildCount(); i++ {
		ch := in.Child(i)
		switch ch.Kind() {
		case cm.LinkDestinationKind, cm.LinkTitleKind, cm.LinkLabelKind:
		case cm.TextKind, cm.CharacterReferenceKind:
			sb.WriteString(ch.Text(r.src))
		case cm.IndentKind, cm.SoftLineBreakKind, cm.HardLineBreakKind:
			sb.WriteByte(' ')
		case cm.RawHTMLKind:
			if withRaw {
				sb.WriteString(ch.Text(r.src))
			}
		default:
			r.altText(ch, withRaw, sb)
		}
	}
}

func (r *renderer) inline(in *cm.Inline, _ bool) {
	switch in.Kind() {
	case cm.TextKind, cm.UnparsedKind:
		r.fixed(EscText(r.text(in)))
	case cm.CharacterReferenceKind:
		r.alt(r.text(in), EscText(in.Text(r.src)))
	case cm.RawHTMLKind:
		if !r.cfg.IgnoreRaw {
			r.raw([]byte(r.text(in)))
		}
	case cm.SoftLineBreakKind:
		switch r.cfg.Soft {
		case cm.SoftBreakHarden:
			r.open("br", "")
			r.fixed("\n")
		case cm.SoftBreakSpace:
			r.fixed(" ")
		default:
			if in.Span().Len() > 0 {
				r.fixed(r.text(in))
			} else {
				r.fixed("\n")
			}
		}
	case cm.HardLineBreakKind:
		r.open("br", "")
		r.fixed("\n")
	case cm.IndentKind:
		r.fixed(strings.Repeat(" ", in.IndentWidth()))
	case cm.EmphasisKind:
		r.open("em", "")
		r.inlineChildren(in.AsNode())
		r.close("em")
	case cm.StrongKind:
		r.open("strong", "")
		r.inlineChildren(in.AsNode())
		r.close("strong")
	case cm.CodeSpanKind:
		r.open("code", "")
		r.inlineChildren(in.AsNode())
		r.close("code")
	case cm.LinkKind:
		dest, title, hasTitle := r.linkDef(in)
		attrs := ` href="` + EscAttr(NormalizeURI(dest)) + `"`
		if hasTitle {
			attrs += ` title="` + EscAttr(title) + `"`
		}
		r.open("a", attrs)
		for i := 0; i < in.ChildCount(); i++ {
			switch ch := in.Child(i); ch.Kind() {
			case cm.LinkDestinationKind, cm.LinkTitleKind, cm.LinkLabelKind:
			default:
				r.inline(ch, false)
			}
		}
		r.close("a")
	case cm.ImageKind:
		dest, title, hasTitle := r.linkDef(in)
		attrs := ` src="` + EscAttr(NormalizeURI(dest)) + `"`
		if hasTitle {
			attrs += ` title="` + EscAttr(title) + `"`
		}
		var a, b strings.Builder
		r.altText(in, false, &a)
		r.altText(in, true, &b)
		lt := "<"
		if r.cfg.Filter != nil && r.cfg.Filter([]byte("img")) {
			lt = "&lt;"
		}
		r.alt(lt+"img"+attrs+` alt="`+EscAttr(a.String())+`">`, lt+"img"+attrs+` alt="`+EscAttr(b.String())+`">`)
	case cm.AutolinkKind:
		dest := ""
		if in.ChildCount() > 0 {
			dest = in.Child(0).Text(r.src)
		}
		href := EscAttr(NormalizeURI(dest))
		if reEmail.MatchString(dest) {
			href = "mailto:" + href
		}
		r.open("a", ` href="`+href+`"`)
		r.alt(EscAttr(dest), EscText(dest))
		r.close("a")
	case cm.HTMLTagKind:
		if r.cfg.IgnoreRaw {
			return
		}
		r.inlineChildren(in.AsNode())
	case cm.InfoStringKind, cm.LinkDestinationKind, cm.LinkTitleKind, cm.LinkLabelKind:
		// rendered by their owners
	}
}

// Block renders one root block into segments.
func Block(rb *cm.RootBlock, refs cm.ReferenceMap, cfg Config) []Seg {
	r := &renderer{cfg: cfg, refs: refs, src: rb.Source}
	r.block(&rb.Block, nil)
	return r.out
}

// Match reports whether actual is an instance of the segment list. On failure
// it returns the byte offset in actual where matching stopped and the expected
// bytes there.
func Match(segs []Seg, actual []byte, filtered bool) (ok bool, at int, want string) {
	best, bestWant := 0, ""
	var rec func(si, pos int) bool
	rec = func(si, pos int) bool {
		for si < len(segs) {
			s := segs[si]
			switch s.Kind {
			case Fixed:
				if !bytes.HasPrefix(actual[pos:], s.B) {
					if pos >= best {
						best, bestWant = pos, string(s.B)
					}
					return false
				}
				pos += len(s.B)
			case Raw:
				for i := 0; i < len(s.B); i++ {
					switch {
					case pos < len(actual) && actual[pos] == s.B[i]:
						pos++
					case filtered && s.B[i] == '<' && bytes.HasPrefix(actual[pos:], []byte("&lt;")):
						pos += 4
					default:
						if pos >= best {
							best, bestWant = pos, string(s.B[i:])
						}
						return false
					}
				}
			case Alt:
				for _, o := range s.Alts {
					if bytes.HasPrefix(actual[pos:], o) && rec(si+1, pos+len(o)) {
						return true
					}
				}
				if pos >= best {
					best, bestWant = pos, string(bytes.Join(s.Alts, []byte(" | ")))
				}
				return false
			}
			si++
		}
		if pos != len(actual) {
			if pos >= best {
				best, bestWant = pos, "<end of output>"
			}
			return false
		}
		return true
	}
	if rec(0, 0) {
		return true, 0, ""
	}
	return false, best, bestWant
}

// String is one concrete instance of the segment list (first alternatives, raw verbatim).
func String(segs []Seg) string {
	var sb strings.Builder
	for _, s := range segs {
		switch s.Kind {
		case Alt:
			sb.Write(s.Alts[0])
		default:
			sb.Write(s.B)
		}
	}
	return sb.String()
}
