package gen

import (
	"strconv"
	"strings"

	"verif/core"
)

func unquoteGo(q string) (string, error) { return strconv.Unquote(q) }

// pathological templates, size-scaled. Each takes n (repetitions) and returns a document.
var pathoTemplates = []struct {
	name string
	f    func(n int) string
}{
	{"nested-brackets", func(n int) string { return strings.Repeat("[", n) + "a" + strings.Repeat("]", n) }},
	{"nested-brackets-a", func(n int) string { return strings.Repeat("[", n) + strings.Repeat("a]", n) }},
	{"image-openers", func(n int) string { return strings.Repeat("![", n) }},
	{"link-openers", func(n int) string { return strings.Repeat("[a](", n) }},
	{"link-openers-lt", func(n int) string { return strings.Repeat("[a](<", n) }},
	{"backtick-ladder", func(n int) string {
		var sb strings.Builder
		for i := 1; i <= n && sb.Len() < 16*1024; i++ {
			sb.WriteString(strings.Repeat("`", i))
			sb.WriteString("a")
		}
		return sb.String()
	}},
	{"backticks-only", func(n int) string { return strings.Repeat("`", n) }},
	{"emph-openers", func(n int) string { return strings.Repeat("*a ", n) }},
	{"emph-closers", func(n int) string { return strings.Repeat("a* ", n) }},
	{"emph-alternate", func(n int) string { return strings.Repeat("*_", n) + "a" + strings.Repeat("_*", n) }},
	{"emph-mixed", func(n int) string { return strings.Repeat("a**b_c*", n) }},
	{"under-intraword", func(n int) string { return strings.Repeat("a_", n) }},
	{"nested-quotes", func(n int) string { return strings.Repeat(">", n) + "a\n" }},
	{"nested-quotes-sp", func(n int) string { return strings.Repeat("> ", n) + "a\n" + strings.Repeat("> ", n/2) + "b\n" }},
	{"nested-lists", func(n int) string {
		var sb strings.Builder
		for i := 0; i < n && sb.Len() < 16*1024; i++ {
			sb.WriteString(strings.Repeat("  ", i))
			sb.WriteString("- a\n")
		}
		return sb.String()
	}},
	{"nested-list-oneline", func(n int) string { return strings.Repeat("- ", n) + "a\n" }},
	{"nested-ordered-oneline", func(n int) string { return strings.Repeat("1. ", n) + "a\n" }},
	{"many-refdefs", func(n int) string {
		var sb strings.Builder
		for i := 0; i < n; i++ {
			sb.WriteString("[r" + strconv.Itoa(i) + "]: /u" + strconv.Itoa(i) + "\n")
		}
		sb.WriteString("\n[r0] [r" + strconv.Itoa(n-1) + "]\n")
		return sb.String()
	}},
	{"refdef-chain", func(n int) string { return strings.Repeat("[a]: /u\n", n) + "[a]\n" }},
	{"unclosed-comment", func(n int) string { return "<!--" + strings.Repeat(" a", n) }},
	{"unclosed-comment-inline", func(n int) string { return "x <!--" + strings.Repeat(" -", n) }},
	{"unclosed-cdata", func(n int) string { return "x <![CDATA[" + strings.Repeat("]]", n) }},
	{"unclosed-pi", func(n int) string { return "x <?" + strings.Repeat("?", n) }},
	{"unclosed-tag-attrs", func(n int) string { return "x <a" + strings.Repeat(" b='c'", n) }},
	{"unclosed-decl", func(n int) string { return "x <!A" + strings.Repeat(" b", n) }},
	{"entity-run", func(n int) string { return strings.Repeat("&amp", n) + ";" }},
	{"entity-run-num", func(n int) string { return strings.Repeat("&#x4", n) }},
	{"lt-run", func(n int) string { return strings.Repeat("<", n) }},
	{"lt-bang-run", func(n int) string { return strings.Repeat("<!", n) }},
	{"autolink-run", func(n int) string { return strings.Repeat("<a:", n) }},
	{"backslash-run", func(n int) string { return strings.Repeat("\\", n) }},
	{"hardbreak-run", func(n int) string { return strings.Repeat("a  \n", n) }},
	{"cr-run", func(n int) string { return strings.Repeat("\r", n) }},
	{"nul-run", func(n int) string { return "a" + strings.Repeat("\x00", n) + "b\n" }},
	{"nul-lines", func(n int) string { return strings.Repeat("\x00\n", n) }},
	{"tabs", func(n int) string { return strings.Repeat("\t", n) + "a\n" }},
	{"quote-tab", func(n int) string { return strings.Repeat(">\t", n) + "a\n" }},
	{"link-title-open", func(n int) string { return "[a](/u \"" + strings.Repeat("\\\"", n) }},
	{"link-dest-parens", func(n int) string { return "[a](" + strings.Repeat("(", n) + strings.Repeat(")", n) + ")" }},
	{"label-long", func(n int) string { return "[" + strings.Repeat("a", n) + "]: /u\n[" + strings.Repeat("a", n) + "]\n" }},
	{"setext-many", func(n int) string { return strings.Repeat("a\n", n) + "===\n" }},
	{"fence-unclosed", func(n int) string { return "```\n" + strings.Repeat("a\n", n) }},
	{"html-block-unclosed", func(n int) string { return "<pre>\n" + strings.Repeat("a\n\n", n) }},
	{"list-blank-items", func(n int) string { return strings.Repeat("-\n", n) }},
	{"list-loose", func(n int) string { return strings.Repeat("- a\n\n", n) }},
	{"invalid-utf8-run", func(n int) string { return strings.Repeat("\xff\xc3", n) }},
	{"bracket-paren-mix", func(n int) string { return strings.Repeat("[](", n) + strings.Repeat(")", n) }},
	{"image-in-link", func(n int) string { return strings.Repeat("[![", n) + "a" + strings.Repeat("](b)](c)", n) }},
	{"star-run", func(n int) string { return strings.Repeat("*", n) + "a" + strings.Repeat("*", n) }},
	{"codespan-multi-line", func(n int) string { return "`" + strings.Repeat("a\n", n) + "`" }},
	{"quote-lazy", func(n int) string { return "> a\n" + strings.Repeat("b\n", n) }},
}

// PathoSizes are the repetition counts; documents are capped at 16 KiB.
var PathoSizes = []int{1, 2, 3, 8, 50, 256, 1000, 2000, 4000}

// PathoCount is the size of the (template, size) grid.
func PathoCount() uint64 { return uint64(len(pathoTemplates) * len(PathoSizes)) }

// Prose builds a linear-cost, prose-like document of roughly the given size.
func Prose(r *core.Rand, size int) []byte {
	var sb strings.Builder
	for sb.Len() < size {
		switch r.Intn(14) {
		case 0:
			sb.WriteString("# " + words[r.Intn(len(words))] + "\n\n")
		case 1:
			sb.WriteString("- " + words[r.Intn(len(words))] + "\n- " + words[r.Intn(len(words))] + "\n\n")
		case 2:
			sb.WriteString("```\ncode " + words[r.Intn(len(words))] + "\n```\n\n")
		case 3:
			sb.WriteString("> " + words[r.Intn(len(words))] + "\n\n")
		case 4:
			// NUL run that will straddle a chunk boundary somewhere
			sb.WriteString("nul" + strings.Repeat("\x00", 1+r.Intn(5)) + "run\n\n")
		case 5:
			sb.WriteString("cr line\rnext\r\nthird\n\n")
		default:
			n := 3 + r.Intn(20)
			for i := 0; i < n; i++ {
				sb.WriteString(words[r.Intn(len(words))])
				if i%9 == 8 {
					sb.WriteByte('\n')
				} else {
					sb.WriteByte(' ')
				}
			}
			sb.WriteString("\n\n")
		}
	}
	return []byte(sb.String())
}

func init() {
	register("patho", func(r *core.Rand, index uint64, _ string) ([]byte, string) {
		index %= PathoCount()
		t := pathoTemplates[int(index)/len(PathoSizes)]
		n := PathoSizes[int(index)%len(PathoSizes)]
		doc := t.f(n)
		if len(doc) > 16*1024 {
			doc = doc[:16*1024]
		}
		return []byte(doc), "patho/" + t.name + "/" + strconv.Itoa(n)
	}, func(string) uint64 { return PathoCount() })
	register("prose", func(r *core.Rand, index uint64, profile string) ([]byte, string) {
		sizes := []int{8000, 8192 * 2, 70000, 300000, 1100000, 2 << 20}
		size := sizes[int(index)%len(sizes)]
		if profile == "longline" {
			// one single line of about size bytes (block-size limit logic)
			return []byte(strings.Repeat("word ", size/5)), "prose/longline/" + strconv.Itoa(size)
		}
		return Prose(r, size), "prose/" + strconv.Itoa(size)
	}, nil)
}

// bigdoc: documents of 8-40 KiB built from many small line-structured and
// soup documents, so that the streaming parser's 8 KiB reads, buffer growth and
// re-slicing are exercised with real block structure (hundreds of root blocks).
// Hostile bytes (NUL, CR, CRLF, a multi-byte character) are planted right at
// multiples of 8192 so that they straddle read boundaries.
func init() {
	register("bigdoc", func(r *core.Rand, index uint64, profile string) ([]byte, string) {
		target := r.Range(8*1024, 40*1024)
		var out []byte
		for len(out) < target {
			var d []byte
			switch r.Intn(4) {
			case 0:
				d = Soup(r.Fork(), "crnul", 1, 30)
			case 1:
				d = Lines(r.Fork(), "hostile")
			default:
				d = Lines(r.Fork(), "default")
			}
			out = append(out, d...)
			switch r.Intn(4) {
			case 0:
				out = append(out, "\n\n"...)
			case 1:
				out = append(out, "\r\n\r\n"...)
			case 2:
				out = append(out, "\n"...)
			default:
				out = append(out, "\n \t\n\n"...)
			}
		}
		plant := [][]byte{{0}, {0, 0, 0}, {'\r'}, {'\r', '\n'}, []byte("é"), []byte("日"), {'\n'}, {' ', ' ', '\n'}, {'`'}, {'\\'}}
		for k := 8192; k < len(out); k += 8192 {
			if r.Intn(3) == 0 {
				continue
			}
			p := plant[r.Intn(len(plant))]
			at := k - r.Intn(len(p)+1) // straddle the boundary
			if at < 0 || at+len(p) > len(out) {
				continue
			}
			copy(out[at:], p)
		}
		return out, "bigdoc"
	}, nil)
}
