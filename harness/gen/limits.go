package gen

import (
	"fmt"
	"strings"

	"verif/core"
)

// The limits generator: documents that sit on the numeric thresholds of the
// CommonMark text and of the library (999 characters in a label, 9 digits in a
// list number, 7/6 digits in numeric references, 2-32 characters in a scheme,
// 63 in a domain label, the 8 KiB read window of the streaming parser, 4 columns
// of indentation, 6 '#', long fences and delimiter runs, deep nesting).
// Added after seeded changes C01-e/C14-e (a CR as the last byte of a full read
// window) and a side remark of the C14 seeding agent (label limit counted in
// bytes) showed that no generator placed anything on these boundaries.

func labelBody(r *core.Rand, n int) string {
	// n "units"; what a unit is depends on the flavour
	var sb strings.Builder
	switch r.Intn(7) {
	case 6: // one or two characters per line: hundreds of line endings (and, inside a container,
		// hundreds of continuation prefixes that are inside the label's source span but not in the label)
		for sb.Len() < n {
			sb.WriteString([]string{"a\n", "bc\n", "é\n"}[r.Intn(3)])
		}
		b := []byte(sb.String())
		for len(b) > n || b[len(b)-1] == '\n' || b[len(b)-1]&0xc0 == 0x80 && false {
			b = b[:len(b)-1]
		}
		for len(b) > 0 && (b[len(b)-1] == '\n' || b[len(b)-1] >= 0x80) {
			b = b[:len(b)-1]
		}
		sb.Reset()
		sb.Write(b)
	case 0: // plain ASCII
		sb.WriteString(strings.Repeat("a", n))
	case 1: // two-byte characters: bytes = 2 x characters
		sb.WriteString(strings.Repeat("é", n))
	case 2: // words and single spaces
		for sb.Len() < n {
			sb.WriteString("ab ")
		}
		b := []byte(sb.String()[:n])
		if b[n-1] == ' ' {
			b[n-1] = 'c'
		}
		sb.Reset()
		sb.Write(b)
	case 3: // one line ending inside (CRLF makes it one byte longer)
		k := r.Range(1, n-2)
		sb.WriteString(strings.Repeat("a", k) + "\n" + strings.Repeat("b", n-k-1))
	case 4: // several line endings
		for i := 0; i < n; i++ {
			if i%97 == 50 {
				sb.WriteByte('\n')
			} else {
				sb.WriteByte('x')
			}
		}
	default: // escapes count two
		for sb.Len()+2 <= n {
			sb.WriteString("\\]")
		}
		for sb.Len() < n {
			sb.WriteByte('z')
		}
	}
	return sb.String()
}

func limitsDoc(r *core.Rand) (string, string) {
	switch fam := r.Intn(13); fam {
	case 12: // long names: raw tag names with upper-case letters, entity names, info strings, attribute names
		n := []int{30, 31, 32, 33, 62, 63, 64, 65, 66, 127, 128, 129, 255, 256, 257, 1000}[r.Intn(16)]
		name := "X" + strings.Repeat([]string{"a", "B", "-", "1"}[r.Intn(4)], n-1)
		return fmt.Sprintf("<%s>\ntext <%s attr%s='v'> and </%s> &%s; &#%s;\n\n<div>\n<%s\n\n``` %s\ncode\n```\n", name, name, name, name, name, strings.Repeat("1", n%9+1), name, name), fmt.Sprintf("names of %d characters", n)
	case 0, 1: // link labels around 999
		n := r.Range(993, 1004)
		if r.Intn(4) == 0 {
			n = r.Range(495, 503) // half, for the two-byte flavour
		}
		l := labelBody(r, n)
		use := []string{"[%s]", "[x][%s]", "[%s][]", "![%s]", "[%s]: /second\n\n[%s]"}[r.Intn(5)]
		use = strings.ReplaceAll(use, "%s", l)
		def := "[" + l + "]: /u 't'"
		var doc string
		switch r.Intn(6) {
		case 4, 5:
			// no blank line anywhere (the list-item transformation of C09 needs that)
			doc = def + "\n" + use + "\n"
		case 0:
			doc = def + "\n\n" + use + "\n"
		case 1:
			doc = use + "\n\n" + def + "\n"
		case 2:
			doc = "> " + strings.ReplaceAll(def, "\n", "\n> ") + "\n\n" + use + "\n"
		default:
			doc = "- " + strings.ReplaceAll(use, "\n", "\n  ") + "\n\n" + def
		}
		return doc, fmt.Sprintf("label of %d units", n)
	case 2: // ordered list numbers
		d := r.Range(7, 11)
		num := strings.Repeat(string(rune('0'+r.Intn(10))), d)
		if r.Bool() {
			num = "1" + strings.Repeat("0", d-1)
		}
		delim := ".)"[r.Intn(2)]
		body := []string{"item", "item\n\n%sitem2", "# h", "```\n%scode\n%s```"}[r.Intn(4)]
		ind := strings.Repeat(" ", d+2)
		body = strings.ReplaceAll(body, "%s", ind)
		return fmt.Sprintf("%s%c %s\n%s%c next\n\npara\n%s%c para\n", num, delim, body, num, delim, num, delim), fmt.Sprintf("%d-digit list number", d)
	case 3: // numeric character references
		var sb strings.Builder
		for i := 0; i < 6; i++ {
			d := r.Range(1, 9)
			if r.Bool() {
				sb.WriteString("&#" + strings.Repeat("0", d-1) + "9; ")
				sb.WriteString("&#" + strings.Repeat("9", d) + "; ")
			} else {
				sb.WriteString("&#x" + strings.Repeat("0", d-1) + "A; ")
				sb.WriteString("&#X" + strings.Repeat("f", d) + "; ")
			}
		}
		sb.WriteString("[a](/u&#" + strings.Repeat("6", r.Range(6, 8)) + "; \"t&#x" + strings.Repeat("1", r.Range(5, 7)) + ";\")\n")
		return sb.String(), "numeric reference digit counts"
	case 4: // autolink scheme and email label lengths
		s := r.Range(1, 34)
		scheme := "a" + strings.Repeat([]string{"b", "+", ".", "-", "1"}[r.Intn(5)], s-1)
		dl := r.Range(61, 65)
		label := "d" + strings.Repeat([]string{"a", "-", "0"}[r.Intn(3)], dl-2) + "e"
		return fmt.Sprintf("<%s:x> <x@%s.com> <x@a.%s> <%s@b.c>\n", scheme, label, label, strings.Repeat("l.", r.Range(1, 40))+"l"), fmt.Sprintf("scheme %d, domain label %d", s, dl)
	case 5, 6: // a line ending on the edge of the 8 KiB read window
		edge := 8192 * r.Range(1, 2)
		pos := edge + r.Range(-3, 2) // offset of the first line-ending byte
		eol := []string{"\n", "\r", "\r\n"}[r.Intn(3)]
		first := []string{"a", "é", "\x00", "> q ", "`c ", "[l]: /u '"}[r.Intn(6)]
		fill := []string{"x", "é", "w ", "\x00"}[r.Intn(4)]
		var sb strings.Builder
		sb.WriteString(first)
		for sb.Len()+len(fill) <= pos {
			sb.WriteString(fill)
		}
		for sb.Len() < pos {
			sb.WriteByte('y')
		}
		sb.WriteString(eol)
		next := []string{"- b", "# h", "===", "> q", "    code", "```", "[r]: /v", "b", "\x00", "\tb", "' tail"}[r.Intn(11)]
		sb.WriteString(next + eol + eol + "last" + eol)
		return sb.String(), fmt.Sprintf("line ending %q at offset %d", eol, pos)
	case 7: // indentation 0-9 columns written with spaces and tabs, in and out of containers
		var sb strings.Builder
		ws := []string{"", " ", "  ", "   ", "    ", "\t", " \t", "  \t", "   \t", "    \t", "\t ", "\t\t", "     ", " \t "}
		cont := []string{"", "> ", ">", "- ", "1.  ", ">\t", "-\t", "> - "}[r.Intn(8)]
		starts := []string{"para", "# h", "- i", "1. i", "> q", "```", "***", "<div>", "[r]: /u", "===", "    c"}
		for i := 0; i < r.Range(2, 6); i++ {
			if i > 0 && cont != "" && cont[0] != '>' {
				sb.WriteString(strings.Repeat(" ", len(cont)))
			} else {
				sb.WriteString(cont)
			}
			sb.WriteString(ws[r.Intn(len(ws))] + starts[r.Intn(len(starts))] + "\n")
			if r.Intn(3) == 0 {
				sb.WriteString("\n")
			}
		}
		return sb.String(), "indentation columns"
	case 8: // long fences, many '#', long delimiter and backtick runs
		n := r.Range(3, 200)
		ch := "`~"[r.Intn(2)]
		f := strings.Repeat(string(ch), n)
		close := strings.Repeat(string(ch), n+r.Range(-2, 2))
		h := strings.Repeat("#", r.Range(5, 8))
		bt := strings.Repeat("`", r.Range(1, 40))
		em := strings.Repeat("*_"[r.Intn(2):][:1], r.Range(1, 30))
		return fmt.Sprintf("%s info\ncode\n%s\n\n%s heading %s\n\n%s code %s and %sstrong%s\n", f, close, h, h, bt, bt, em, em), fmt.Sprintf("fence %d", n)
	case 9: // deep nesting
		d := r.Range(10, 120)
		var sb strings.Builder
		switch r.Intn(4) {
		case 0:
			sb.WriteString(strings.Repeat("> ", d) + "deep\n" + strings.Repeat(">", d/2) + " less\nlazy\n")
		case 1:
			for i := 0; i < d && i < 60; i++ {
				sb.WriteString(strings.Repeat("  ", i) + "- l\n")
			}
		case 2:
			sb.WriteString(strings.Repeat("[", d) + "a" + strings.Repeat("](/u)", d) + "\n")
		default:
			sb.WriteString(strings.Repeat("*", d) + "a" + strings.Repeat("*", d-1) + " " + strings.Repeat("_a ", d/3) + "\n")
		}
		return sb.String(), fmt.Sprintf("nesting %d", d)
	case 10: // thematic break / setext underline / list item look-alikes with many characters
		n := r.Range(1, 80)
		c := "-*_="[r.Intn(4)]
		sep := []string{"", " ", "\t", "  "}[r.Intn(4)]
		l := strings.TrimRight(strings.Repeat(string(c)+sep, n), " \t")
		return "para\n" + l + "\n" + l + " x\n\n" + strings.Repeat(" ", r.Intn(5)) + l + "\n", "break-like line"
	default: // link destinations and titles: parentheses depth, long runs
		d := r.Range(1, 40)
		return fmt.Sprintf("[a](%sx%s) [b](<%s> '%s') [c](/u (%s))\n\n[r]: %sx%s \"%s\"\n\n[r]\n",
			strings.Repeat("(", d), strings.Repeat(")", d+r.Range(-1, 1)), strings.Repeat("\\>", d), strings.Repeat("\\'", d), strings.Repeat("\\)", d),
			strings.Repeat("(", d), strings.Repeat(")", d), strings.Repeat("&amp;", d)), fmt.Sprintf("parenthesis depth %d", d)
	}
}

func init() {
	register("limits", func(r *core.Rand, index uint64, profile string) ([]byte, string) {
		doc, note := limitsDoc(r)
		switch profile {
		case "tabfree":
			doc = strings.ReplaceAll(doc, "\t", "  ")
		case "crlf":
			doc = strings.ReplaceAll(doc, "\n", "\r\n")
		default:
			switch r.Intn(8) {
			case 0:
				doc = strings.ReplaceAll(strings.ReplaceAll(doc, "\r\n", "\n"), "\n", "\r\n")
			case 1:
				doc = strings.ReplaceAll(strings.ReplaceAll(doc, "\r\n", "\n"), "\n", "\r")
			}
		}
		if r.Intn(3) == 0 {
			doc = strings.TrimRight(doc, "\r\n")
		}
		return []byte(doc), "limits/" + note
	}, nil)
}

// hugeblock: single root blocks around and above the streaming parser's block-size
// limit (1 MiB of buffer, NUL bytes counted three times). Only totality is judged on
// them (C04): the limit is documented, and C08's quantifier stops below it.
const hugeBlockCases = 16

func hugeBlock(index uint64) (string, string) {
	const mib = 1 << 20
	switch index % hugeBlockCases {
	case 0:
		return strings.Repeat("word ", 1200000/5), "one line of 1.2 MB without line ending"
	case 1:
		return strings.Repeat(strings.Repeat("word ", 16)+"\n", 15000), "one paragraph of 15 000 lines"
	case 2:
		return strings.Repeat("\x00", 360*1024), "360 KiB of NUL in one line"
	case 3:
		return "# h\n\npara\n\n~~~\n" + strings.Repeat("code line\n", 120000), "unclosed fenced code block of 1.2 MB after small blocks"
	case 4, 5, 6:
		n := mib - 1 + int(index%hugeBlockCases-4)
		return strings.Repeat("a", n), fmt.Sprintf("one line of %d bytes", n)
	case 7, 8, 9:
		n := mib/3 - 1 + int(index%hugeBlockCases-7)
		return strings.Repeat("\x00", n) + "\n", fmt.Sprintf("%d NUL bytes in one line", n)
	case 10:
		return "> q\n" + strings.Repeat("lazy continuation line\n", 55000), "block quote continued lazily for 1.2 MB"
	case 11:
		return strings.Repeat("x", 1200000) + "\n\nafter\n\n- list\n", "blocks after an oversized line"
	case 12:
		return strings.Repeat("- item with some text in it\n", 42000), "one tight list of 42 000 items"
	case 13:
		return strings.Repeat("a", mib-8192-1) + "\r\n" + strings.Repeat("b", 9000) + "\n", "CRLF just below the last read window of the limit"
	case 14:
		return "[label]: /u '" + strings.Repeat("t", 1100000) + "'\n\n[label]\n", "definition with a 1.1 MB title"
	default:
		return strings.Repeat("é", mib/2+5) + "\n" + strings.Repeat("`", 100000) + "\n", "multi-byte line across the limit, then a long backtick run"
	}
}

func init() {
	register("hugeblock", func(r *core.Rand, index uint64, profile string) ([]byte, string) {
		doc, note := hugeBlock(index)
		return []byte(doc), "hugeblock/" + note
	}, func(string) uint64 { return hugeBlockCases })
}
