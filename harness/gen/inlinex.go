package gen

import (
	"strings"

	"verif/core"
)

// The inlinex generator: a well-formed tree of inline constructs is serialised
// into tokens (every delimiter its own token) and a few delimiter tokens are then
// deleted, duplicated, moved, swapped or respelled, so that emphasis, links,
// images, code spans, autolinks and raw tags *cross* each other's boundaries
// (`![*a](/u) b*`, `*[a*](u)`, `[a `b](c)` d`). Seeded change C05-g (emphasis
// opened inside an image description and closed after the image swallowed the
// image's destination) showed that neither the balanced templates nor random
// atom soup produce these shapes often enough.

type ixGen struct {
	r    *core.Rand
	toks []string
	refs map[string]bool
}

var ixWords = []string{"a", "b", "foo", "bar", "é", "x1", "日本", "Z"}

func (g *ixGen) emit(t ...string) { g.toks = append(g.toks, t...) }

func (g *ixGen) seq(depth int, n int) {
	for i := 0; i < n; i++ {
		if i > 0 {
			switch g.r.Intn(8) {
			case 0:
				g.emit("\n")
			case 1:
				g.emit("  \n")
			case 2:
				g.emit("\\\n")
			case 3:
			default:
				g.emit(" ")
			}
		}
		g.node(depth)
	}
}

func (g *ixGen) node(depth int) {
	k := g.r.Intn(16)
	if depth <= 0 && k < 8 {
		k = 8 + g.r.Intn(8)
	}
	switch k {
	case 0, 1: // emphasis
		d := []string{"*", "_"}[g.r.Intn(2)]
		g.emit(d)
		g.seq(depth-1, g.r.Range(1, 3))
		g.emit(d)
	case 2: // strong
		d := []string{"**", "__"}[g.r.Intn(2)]
		g.emit(d)
		g.seq(depth-1, g.r.Range(1, 2))
		g.emit(d)
	case 3, 4: // inline link or image
		g.emit([]string{"[", "!["}[g.r.Intn(2)])
		g.seq(depth-1, g.r.Range(1, 3))
		g.emit("]", "(")
		switch g.r.Intn(5) {
		case 0:
			g.emit("<", "/u v", ">")
		case 1:
		default:
			g.emit([]string{"/u", "/a(b)", "#f", "/x%41"}[g.r.Intn(4)])
		}
		if g.r.Intn(3) == 0 {
			q := [][2]string{{"\"", "\""}, {"'", "'"}, {"(", ")"}}[g.r.Intn(3)]
			g.emit(" ", q[0], []string{"t", "t t", "t\nt", "&amp;", ""}[g.r.Intn(5)], q[1])
		}
		g.emit(")")
	case 5, 6: // reference link or image
		g.emit([]string{"[", "!["}[g.r.Intn(2)])
		g.seq(depth-1, g.r.Range(1, 2))
		g.emit("]")
		ref := []string{"r1", "R2", "r 3"}[g.r.Intn(3)]
		g.refs[ref] = true
		switch g.r.Intn(3) {
		case 0:
			g.emit("[", ref, "]")
		case 1:
			g.emit("[", "]")
		}
	case 7: // shortcut reference whose text is the label
		ref := []string{"r1", "R2", "r 3"}[g.r.Intn(3)]
		g.refs[ref] = true
		g.emit([]string{"[", "!["}[g.r.Intn(2)], ref, "]")
	case 8: // code span
		t := strings.Repeat("`", g.r.Range(1, 2))
		g.emit(t, []string{"c", " c ", "c*d", "[c", "c]", "<c", "c\nd"}[g.r.Intn(7)], t)
	case 9: // autolink
		g.emit("<", []string{"http://a.b/c", "m@n.o", "x:y*z_"}[g.r.Intn(3)], ">")
	case 10: // raw tag
		g.emit("<", []string{"b", "/b", "a href=\"*\"", "i x='['", "!-- c --", "?p?"}[g.r.Intn(6)], ">")
	case 11: // escape or entity
		g.emit([]string{"\\*", "\\[", "\\]", "\\`", "\\<", "&amp;", "&#42;", "\\_", "\\!"}[g.r.Intn(9)])
	default:
		g.emit(ixWords[g.r.Intn(len(ixWords))])
	}
}

var ixDelims = []string{"*", "_", "**", "__", "[", "![", "]", "(", ")", "`", "``", "<", ">", "\"", "'", "!", "\\"}

func isIxDelim(t string) bool {
	for _, d := range ixDelims {
		if t == d {
			return true
		}
	}
	return false
}

func inlineXDoc(r *core.Rand, tabfree bool) string {
	g := &ixGen{r: r, refs: map[string]bool{}}
	g.seq(r.Range(1, 3), r.Range(1, 4))
	toks := g.toks
	delimIdx := func() int {
		var idx []int
		for i, t := range toks {
			if isIxDelim(t) {
				idx = append(idx, i)
			}
		}
		if len(idx) == 0 {
			return -1
		}
		return idx[r.Intn(len(idx))]
	}
	for m := r.Intn(4); m > 0; m-- {
		i := delimIdx()
		if i < 0 {
			break
		}
		switch r.Intn(7) {
		case 0: // delete
			toks = append(toks[:i:i], toks[i+1:]...)
		case 1: // duplicate
			toks = append(toks[:i+1:i+1], toks[i:]...)
		case 2: // move somewhere else
			t := toks[i]
			toks = append(toks[:i:i], toks[i+1:]...)
			j := r.Intn(len(toks) + 1)
			toks = append(toks[:j:j], append([]string{t}, toks[j:]...)...)
		case 3: // swap with the next token
			if i+1 < len(toks) {
				toks[i], toks[i+1] = toks[i+1], toks[i]
			}
		case 4: // respell
			toks[i] = ixDelims[r.Intn(len(ixDelims))]
		case 5: // line break before it
			toks = append(toks[:i:i], append([]string{"\n"}, toks[i:]...)...)
		default: // insert a stray delimiter
			j := r.Intn(len(toks) + 1)
			toks = append(toks[:j:j], append([]string{ixDelims[r.Intn(len(ixDelims))]}, toks[j:]...)...)
		}
	}
	body := strings.Join(toks, "")
	// no blank lines inside the paragraph
	for strings.Contains(body, "\n\n") {
		body = strings.ReplaceAll(body, "\n\n", "\n")
	}
	first, cont := "", ""
	switch r.Intn(8) {
	case 0:
		first, cont = "> ", "> "
	case 1:
		first, cont = "- ", "  "
	case 2:
		first, cont = "> ", "" // lazy
	case 3:
		first, cont = "# ", ""
		body = strings.ReplaceAll(body, "\n", " ")
	case 4:
		first, cont = "1. ", "   "
		if !tabfree {
			cont = "\t"
		}
	}
	var sb strings.Builder
	for i, l := range strings.Split(body, "\n") {
		if i == 0 {
			sb.WriteString(first)
		} else {
			sb.WriteString(cont)
		}
		sb.WriteString(l)
		sb.WriteString("\n")
	}
	if r.Intn(4) == 0 {
		sb.WriteString("===\n")
	}
	if len(g.refs) > 0 && r.Intn(4) > 0 {
		sb.WriteString("\n")
		for _, ref := range []string{"r1", "R2", "r 3"} {
			if g.refs[ref] {
				sb.WriteString("[" + strings.ToLower(ref) + "]: /" + ref[:1] + " 'T'\n")
			}
		}
	}
	doc := sb.String()
	if r.Intn(4) == 0 {
		doc = strings.TrimRight(doc, "\n")
	}
	return doc
}

func init() {
	register("inlinex", func(r *core.Rand, index uint64, profile string) ([]byte, string) {
		return []byte(inlineXDoc(r, profile == "tabfree")), "inlinex/" + profile
	}, nil)
}
