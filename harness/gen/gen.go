// Package gen holds the workload generators. Every generator is a pure
// function of (seed, profile, index).
package gen

import (
	"fmt"
	"sort"
	"strings"

	"verif/core"
)

// Func produces the input for one index, and a provenance note.
type Func func(r *core.Rand, index uint64, profile string) (input []byte, note string)

type entry struct {
	f Func
	// size, if non-nil, gives the number of distinct indices for a profile
	// (exhaustive generators); 0 means unbounded.
	size func(profile string) uint64
}

var registry = map[string]entry{}

func register(name string, f Func, size func(string) uint64) {
	registry[name] = entry{f, size}
}

// Names lists the registered generators.
func Names() []string {
	var n []string
	for k := range registry {
		n = append(n, k)
	}
	sort.Strings(n)
	return n
}

// Generate returns the case input for (seed, gen, profile, index).
func Generate(seed uint64, gen, profile string, index uint64) ([]byte, string) {
	e, ok := registry[gen]
	if !ok {
		panic("unknown generator " + gen)
	}
	r := core.NewRand(core.Mix(seed, core.HashString(gen), core.HashString(profile), index))
	return e.f(r, index, profile)
}

// CaseSeed is the per-case seed handed to the monitor.
func CaseSeed(seed uint64, gen, profile string, index uint64) uint64 {
	return core.Mix(seed^0x5eed, core.HashString(gen), core.HashString(profile), index)
}

// Size returns the size of an exhaustive generator's index space (0 if unbounded).
func Size(gen, profile string) uint64 {
	e, ok := registry[gen]
	if !ok {
		panic("unknown generator " + gen)
	}
	if e.size == nil {
		return 0
	}
	return e.size(profile)
}

// ---------------------------------------------------------------- small

// Alphabets for the exhaustive shortlex generator. A profile is
// "<alphabet>:<maxlen>".
var Alphabets = map[string][]string{
	"c01":    {"a", " ", "\t", "\n", "\r", "\x00", ">", "-", "#", "`", "[", ":"},
	"c02":    {"a", "é", "\\", "*", "[", "]", "(", ")", "`", "\n", " ", ">"},
	"c08":    {"a", "\n", "\r", "\x00", "é", " ", ">", "-", "`"},
	"emph5":  {"*", "_", "a", " ", "."},
	"emph8":  {"*", "_", "a", " ", ".", "\u201c", "\u00a0", "\u00e9"},
	"atx":    {"#", " ", "\t", "a", "\\", "\n"},
	"break":  {"*", "-", "_", " ", "\t", "a", "\n"},
	"setext": {"=", "-", " ", "\t", "a", "\n"},
	"fence":  {"`", "~", " ", "a", "\n"},
	"marker": {"0", "1", "9", "-", "+", "*", ".", ")", " ", "\t", "a"},
	"uri":    {"a", "%", "4", "G", "g", "f", " ", "é", "\xff", "/", "<", "\""},
	"email":  {"a", "1", "-", ".", "@", "_", "+", " "},
	"c14":    {"a", " ", "\t", "\n", "-", ">", "`", "#", "\\", "*"},
	"c16":    {"a", " ", "\n", "-", ">", "`", "#", "=", "[", "]", ":", "1", "."},
	"html":   {"<", ">", "!", "-", "?", "/", "s", "[", "]", " ", "\n", "\"", "a"},
	"c17":    {"<", ">", "!", "-", "?", "/", "script", " ", "\"", "a", "\n"},
	"c04":    {"`", "~", "\\", " ", "a", "\n", "[", "]", "(", ")", "<", ">", "\"", "&", "-", "\t"},
}

func parseSmallProfile(profile string) ([]string, int) {
	i := strings.IndexByte(profile, ':')
	if i < 0 {
		panic("small profile must be alphabet:maxlen: " + profile)
	}
	alpha, ok := Alphabets[profile[:i]]
	if !ok {
		panic("unknown alphabet " + profile[:i])
	}
	n := 0
	fmt.Sscanf(profile[i+1:], "%d", &n)
	return alpha, n
}

// SmallSize is the number of strings of length <= n over an alphabet of k symbols.
func SmallSize(k, n int) uint64 {
	total, p := uint64(0), uint64(1)
	for i := 0; i <= n; i++ {
		total += p
		p *= uint64(k)
	}
	return total
}

// SmallString decodes index into the index-th string in shortlex order.
func SmallString(alpha []string, index uint64) string {
	k := uint64(len(alpha))
	length, p := 0, uint64(1)
	for index >= p {
		index -= p
		p *= k
		length++
	}
	syms := make([]string, length)
	for i := length - 1; i >= 0; i-- {
		syms[i] = alpha[index%k]
		index /= k
	}
	return strings.Join(syms, "")
}

func init() {
	register("small", func(_ *core.Rand, index uint64, profile string) ([]byte, string) {
		alpha, _ := parseSmallProfile(profile)
		return []byte(SmallString(alpha, index)), "small/" + profile
	}, func(profile string) uint64 {
		alpha, n := parseSmallProfile(profile)
		return SmallSize(len(alpha), n)
	})
	// "index" hands only the index to the monitor (unit sweeps: byte values,
	// code points, class pairs, concurrency rounds).
	register("index", func(_ *core.Rand, index uint64, profile string) ([]byte, string) {
		return nil, "index/" + profile
	}, nil)
}

// Register lets monitors add workload generators of their own.
func Register(name string, f Func) { register(name, f, nil) }
