package gen

import (
	"strings"

	"verif/core"
)

// atom groups for the soup generator.
var (
	gLetters = []string{"a", "b", "x", "foo", "bar", "Baz", "1", "0", "9", "42"}
	gSpaces  = []string{" ", " ", "  ", "    ", "   "}
	gTab     = []string{"\t", " \t", "\t\t"}
	gLF      = []string{"\n", "\n", "\n\n", "\n  ", "\n    "}
	gCR      = []string{"\r\n", "\r", "\r\n\r\n", "\r\r"}
	gPunct   = strings.Split("! \" # $ % & ' ( ) * + , - . / : ; < = > ? @ [ \\ ] ^ _ ` { | } ~", " ")
	gBlock   = []string{"```", "~~~", "````", "---", "===", "***", "___", "- - -", "1. ", "2) ", "10. ", "123456789. ", "> ", ">", "- ", "+ ", "* ", "# ", "## ", "####### ", " #", "    ", "=", "-"}
	gInline  = []string{"![", "](", "[a]", "[a][]", "[a][b]", "[b]", "(/u \"t\")", "(/u)", "(<u v>)", "[a]: /u", "[b]: <v> 't'", "[a]: /w \"T\"\n", "<http://x.y>", "<a@b.c>", "\\\n", "  \n", "\\", "**", "__", "*", "_", "`", "``", "` `", "&amp;", "&#x41;", "&#65;", "&#0;", "&copy;", "&nosuch;", "&#xGG;", "&amp"}
	gHTML    = []string{"<a>", "</a>", "<a href=\"x\">", "<a href='y' b=c>", "<br/>", "<!--", "-->", "<!-->", "<!--->", "--!>", "<?", "?>", "<?x?>", "<![CDATA[", "]]>", "<!X", "<!DOCTYPE html>", "<script>", "</script>", "<SCRIPT>", "<ScRiPt a=\">\">", "<pre>", "</pre>", "<style>", "<textarea>", "<title>", "<xmp>", "<iframe>", "<plaintext>", "<div>", "</div>", "<div", "<p>", "<b", "<3", "< a>", "</", "</ a>", "<a/", "<a\n", "<!", "<!-"}
	gNUL     = []string{"\x00", "\x00\x00", "\x00\x00\x00", "a\x00"}
	gBadUTF  = []string{"\xff", "\xc3", "\xe2\x82", "\xc0\xaf", "\xed\xa0\x80", "\xf4\x90\x80\x80", "\x80"}
	gUni     = []string{"\u00e9", "\u00df", "\u0130", "\u1f50", "\u00a0", "\u2003", "\u201c", "\u00a1", "\u1e9e", "\u01c5", "\u3000", "\f", "\v", "\u2028", "\ufeff"}
	gInject  = []string{"\"", "'", "\" onerror=\"alert(1)", "' onload='x", "javascript:alert(1)", "onerror=", "\"><script>", "&#x3C;", "&#60;", "&lt;", "&quot;", "&#34;", "&#x22;", "%22", "%3C", "%", "%G", "%zz", "&#xG;", "&#x110000;", "&#99999999;", "&;", "&#;", "&#x;", "&AMP;", "&amp;amp;", "`", "=", " ", "<", ">"}
)

type groupWeight struct {
	atoms  []string
	weight int
}

// soupProfiles maps profile name to weighted groups.
var soupProfiles = map[string][]groupWeight{
	"default": {{gLetters, 20}, {gSpaces, 10}, {gTab, 3}, {gLF, 12}, {gCR, 2}, {gPunct, 20}, {gBlock, 12}, {gInline, 14}, {gHTML, 6}, {gNUL, 1}, {gBadUTF, 1}, {gUni, 3}},
	"crnul":   {{gLetters, 16}, {gSpaces, 10}, {gTab, 4}, {gLF, 10}, {gCR, 12}, {gPunct, 10}, {gBlock, 12}, {gInline, 8}, {gHTML, 3}, {gNUL, 8}, {gBadUTF, 3}, {gUni, 4}},
	"html":    {{gLetters, 14}, {gSpaces, 8}, {gTab, 2}, {gLF, 12}, {gCR, 1}, {gPunct, 8}, {gBlock, 8}, {gInline, 6}, {gHTML, 38}, {gNUL, 1}, {gBadUTF, 1}, {gUni, 1}},
	"inject":  {{gLetters, 14}, {gSpaces, 6}, {gTab, 1}, {gLF, 8}, {gCR, 1}, {gPunct, 10}, {gBlock, 8}, {gInline, 22}, {gHTML, 4}, {gNUL, 1}, {gBadUTF, 2}, {gUni, 2}, {gInject, 21}},
	"tabfree": {{gLetters, 20}, {gSpaces, 10}, {gLF, 14}, {gCR, 1}, {gPunct, 18}, {gBlock, 12}, {gInline, 16}, {gHTML, 6}, {gNUL, 1}, {gBadUTF, 1}, {gUni, 2}},
	"hostile": {{gLetters, 8}, {gSpaces, 6}, {gTab, 5}, {gLF, 8}, {gCR, 8}, {gPunct, 16}, {gBlock, 10}, {gInline, 12}, {gHTML, 8}, {gNUL, 6}, {gBadUTF, 8}, {gUni, 5}},
	"inline":  {{gLetters, 20}, {gSpaces, 8}, {gTab, 1}, {gLF, 8}, {gCR, 1}, {gPunct, 22}, {gBlock, 3}, {gInline, 30}, {gHTML, 6}, {gUni, 3}},
}

func soupAtom(r *core.Rand, groups []groupWeight, total int) string {
	w := r.Intn(total)
	for _, g := range groups {
		if w < g.weight {
			return g.atoms[r.Intn(len(g.atoms))]
		}
		w -= g.weight
	}
	return "a"
}

// Soup builds a document of n atoms from the profile.
func Soup(r *core.Rand, profile string, minAtoms, maxAtoms int) []byte {
	groups, ok := soupProfiles[profile]
	if !ok {
		panic("unknown soup profile " + profile)
	}
	total := 0
	for _, g := range groups {
		total += g.weight
	}
	n := r.Range(minAtoms, maxAtoms)
	var sb strings.Builder
	for i := 0; i < n; i++ {
		sb.WriteString(soupAtom(r, groups, total))
	}
	return []byte(sb.String())
}

func init() {
	register("soup", func(r *core.Rand, index uint64, profile string) ([]byte, string) {
		max := 40
		switch r.Intn(10) {
		case 0:
			max = 4
		case 1, 2:
			max = 12
		case 9:
			max = 120
		}
		return Soup(r, profile, 1, max), "soup/" + profile
	}, nil)
}
