package gen

import (
	"strings"

	"verif/core"
)

// The defsplit generator: paragraphs that start like link reference definitions,
// cut into lines at every possible place, inside containers whose continuation
// prefixes are spelled with spaces, tabs that are only partly consumed, and
// hostile bytes right after the prefix. Reference definitions are parsed when the
// paragraph closes, by a reader that jumps over container prefixes and expands
// NUL bytes and split tabs virtually; most findings so far (F06-F08, F10, F12, F32,
// F33) and seeded change C04-f (a NUL right after a split tab inside a label) live
// in exactly this corner, which template-based generators reach only by luck.

type defContainer struct {
	first string   // prefix of the first line
	cont  []string // spellings of the continuation prefix
}

var defContainers = []defContainer{
	{"", []string{"", " ", "   ", "\t", "    "}},
	{"> ", []string{"> ", ">", ">\t", " > ", "   >", "   > ", "   >\t", ""}},
	{"   > ", []string{"   > ", "   >\t", ">\t", "> ", "   >"}},
	{"- ", []string{"  ", "\t", " \t", "   ", ""}},
	{"1.   ", []string{"     ", "    \t", "\t\t", "\t ", "      "}},
	{"   - ", []string{"     ", "    \t", "\t\t", "   \t"}},
	{"> - ", []string{">   ", ">\t", "> \t", ">  \t", "> "}},
	{"- > ", []string{"  > ", "  >\t", "\t>", "  >"}},
	{"10) ", []string{"    ", "\t", "   \t", "  \t\t"}},
}

var defHostile = []string{"", "", "", "", "\x00", "\x00\x00", "\t", "\t\x00", " \x00", "\\", "\xc3", "\r"}

func defSplitDoc(r *core.Rand, tabfree bool) string {
	// token list of one or two definition-like runs followed by optional text
	var toks []string
	nDefs := r.Range(1, 3)
	for d := 0; d < nDefs; d++ {
		toks = append(toks, "[")
		for i, n := 0, r.Range(1, 3); i < n; i++ {
			toks = append(toks, []string{"a", "b", "é", "\x00", "\\]", " ", "\\", "*", "A"}[r.Intn(9)])
		}
		toks = append(toks, "]", ":")
		if r.Intn(3) > 0 {
			toks = append(toks, []string{" ", "  ", "\t"}[r.Intn(3)])
		}
		switch r.Intn(6) {
		case 0:
			toks = append(toks, "<", "u", " ", "v", ">")
		case 1:
			toks = append(toks, "/u", "\\")
		case 2:
			toks = append(toks, "\x00")
		case 3:
			toks = append(toks, "/a(", "b", ")")
		default:
			toks = append(toks, "/u")
		}
		if r.Intn(2) == 0 {
			toks = append(toks, []string{" ", "  ", "\t"}[r.Intn(3)])
			q := [][2]string{{"\"", "\""}, {"'", "'"}, {"(", ")"}}[r.Intn(3)]
			toks = append(toks, q[0])
			for i, n := 0, r.Intn(4); i < n; i++ {
				toks = append(toks, []string{"t", " ", "\\", "\x00", "é", "\\" + q[1], "&amp;"}[r.Intn(7)])
			}
			if r.Intn(6) > 0 {
				toks = append(toks, q[1])
			}
		}
		if r.Intn(5) == 0 {
			toks = append(toks, []string{" x", "  ", "\t", "\\"}[r.Intn(4)])
		}
		if d < nDefs-1 || r.Intn(2) == 0 {
			toks = append(toks, "\n")
		}
	}
	switch r.Intn(5) {
	case 0:
		toks = append(toks, "text", "\n", "more")
	case 1:
		toks = append(toks, "===")
	case 2:
		toks = append(toks, "-")
	case 3:
		toks = append(toks, "[", "a", "]")
	}
	c := defContainers[r.Intn(len(defContainers))]
	var sb strings.Builder
	sb.WriteString(c.first)
	breakP := r.Range(3, 9) // one line break per breakP tokens, on average
	for i, t := range toks {
		if t == "\n" || (i > 0 && r.Intn(breakP) == 0) {
			sb.WriteString("\n")
			sb.WriteString(c.cont[r.Intn(len(c.cont))])
			sb.WriteString(defHostile[r.Intn(len(defHostile))])
			if t == "\n" {
				continue
			}
		}
		sb.WriteString(t)
	}
	switch r.Intn(4) {
	case 0:
	case 1:
		sb.WriteString("\n\n[a]\n")
	default:
		sb.WriteString("\n")
	}
	doc := sb.String()
	if tabfree {
		doc = strings.ReplaceAll(doc, "\t", "  ")
	}
	switch r.Intn(10) {
	case 0:
		doc = strings.ReplaceAll(doc, "\n", "\r\n")
	case 1:
		doc = strings.ReplaceAll(doc, "\n", "\r")
	}
	return doc
}

func init() {
	register("defsplit", func(r *core.Rand, index uint64, profile string) ([]byte, string) {
		return []byte(defSplitDoc(r, profile == "tabfree")), "defsplit/" + profile
	}, nil)
}
