package gen

import (
	"bytes"
	"encoding/json"
	"os"
	"path/filepath"
	"sort"
	"strings"
	"sync"

	"verif/core"
)

// SpecExample is one example of the frozen spec-0.30 fixture.
type SpecExample struct {
	Markdown string `json:"markdown"`
	HTML     string `json:"html"`
	Example  int    `json:"example"`
	Section  string `json:"section"`
}

var (
	specOnce   sync.Once
	specEx     []SpecExample
	corpus     [][]byte // spec examples + fuzz seeds + harvested corpus
	prefixOffs []uint64 // cumulative number of prefixes per corpus entry
)

// FixturesDir is /verif/fixtures; settable for replays from other cwd.
var FixturesDir = func() string {
	if d := os.Getenv("VERIF_FIXTURES"); d != "" {
		return d
	}
	return "/verif/fixtures"
}()

func loadSpec() {
	specOnce.Do(func() {
		data, err := os.ReadFile(filepath.Join(FixturesDir, "spec-0.30.json"))
		if err != nil {
			panic(err)
		}
		if err := json.Unmarshal(data, &specEx); err != nil {
			panic(err)
		}
		for _, e := range specEx {
			corpus = append(corpus, []byte(e.Markdown))
		}
		// go fuzz corpus files of the repo (frozen copy) and harvested inputs
		var extra []string
		filepath.Walk(filepath.Join(FixturesDir, "repo-fuzz"), func(p string, info os.FileInfo, err error) error {
			if err == nil && !info.IsDir() {
				extra = append(extra, p)
			}
			return nil
		})
		filepath.Walk(filepath.Join(FixturesDir, "corpus"), func(p string, info os.FileInfo, err error) error {
			if err == nil && !info.IsDir() {
				extra = append(extra, p)
			}
			return nil
		})
		sort.Strings(extra)
		for _, p := range extra {
			b, err := os.ReadFile(p)
			if err != nil {
				continue
			}
			if s := parseGoFuzzFile(b); s != nil {
				corpus = append(corpus, s)
			} else {
				corpus = append(corpus, b)
			}
		}
		total := uint64(0)
		for _, c := range corpus {
			total += uint64(len(c)) + 1
			prefixOffs = append(prefixOffs, total)
		}
	})
}

// parseGoFuzzFile extracts the first string/[]byte value of a "go test fuzz v1" file.
func parseGoFuzzFile(b []byte) []byte {
	if !bytes.HasPrefix(b, []byte("go test fuzz v1")) {
		return nil
	}
	lines := strings.Split(string(b), "\n")
	for _, l := range lines[1:] {
		l = strings.TrimSpace(l)
		for _, p := range []string{"string(", "[]byte("} {
			if strings.HasPrefix(l, p) && strings.HasSuffix(l, ")") {
				q := l[len(p) : len(l)-1]
				var s string
				if err := json.Unmarshal([]byte(q), &s); err == nil {
					return []byte(s)
				}
				// Go-quoted strings are a superset of JSON; fall back.
				if u, err := unquoteGo(q); err == nil {
					return []byte(u)
				}
			}
		}
	}
	return nil
}

// SpecExamples returns the frozen examples.
func SpecExamples() []SpecExample { loadSpec(); return specEx }

// Corpus returns spec examples followed by the extra corpus.
func Corpus() [][]byte { loadSpec(); return corpus }

// CorpusSize is the number of corpus documents.
func CorpusSize() uint64 { loadSpec(); return uint64(len(corpus)) }

// PrefixCount is the number of (document, cut) pairs.
func PrefixCount() uint64 { loadSpec(); return prefixOffs[len(prefixOffs)-1] }

func prefixAt(index uint64) []byte {
	loadSpec()
	i := sort.Search(len(prefixOffs), func(i int) bool { return prefixOffs[i] > index })
	base := uint64(0)
	if i > 0 {
		base = prefixOffs[i-1]
	}
	cut := int(index - base)
	return corpus[i][:cut]
}

// Mutate applies one random mutation drawn from the spec-mutation set.
func Mutate(r *core.Rand, doc []byte) []byte {
	loadSpec()
	out := append([]byte(nil), doc...)
	switch r.Intn(12) {
	case 0: // CRLF
		out = bytes.ReplaceAll(out, []byte("\n"), []byte("\r\n"))
	case 1: // CR
		out = bytes.ReplaceAll(out, []byte("\n"), []byte("\r"))
	case 2: // mixed endings
		var b bytes.Buffer
		for _, c := range out {
			if c == '\n' {
				b.WriteString([]string{"\n", "\r\n", "\r"}[r.Intn(3)])
			} else {
				b.WriteByte(c)
			}
		}
		out = b.Bytes()
	case 3: // insert hostile byte
		if len(out) > 0 {
			p := r.Intn(len(out) + 1)
			ins := [][]byte{{0}, {0xff}, {0xc3}, {'\t'}, {' '}, {'\\'}, {'`'}, {'*'}, {'['}, {']'}, {'<'}, {'>'}, {'&'}, {'\n'}, {0, 0}}[r.Intn(15)]
			out = append(out[:p:p], append(ins, out[p:]...)...)
		}
	case 4: // delete a byte range
		if len(out) > 1 {
			p := r.Intn(len(out))
			n := 1 + r.Intn(4)
			if p+n > len(out) {
				n = len(out) - p
			}
			out = append(out[:p:p], out[p+n:]...)
		}
	case 5: // duplicate / drop / transpose a line
		ls := bytes.SplitAfter(out, []byte("\n"))
		if len(ls) > 1 {
			i := r.Intn(len(ls))
			switch r.Intn(3) {
			case 0:
				ls = append(ls[:i+1], ls[i:]...)
			case 1:
				ls = append(ls[:i:i], ls[i+1:]...)
			default:
				j := r.Intn(len(ls))
				ls[i], ls[j] = ls[j], ls[i]
			}
			out = bytes.Join(ls, nil)
		}
	case 6: // splice with another document at a line boundary
		other := corpus[r.Intn(len(corpus))]
		la := bytes.SplitAfter(out, []byte("\n"))
		lb := bytes.SplitAfter(other, []byte("\n"))
		out = bytes.Join(append(la[:r.Intn(len(la)+1)], lb[r.Intn(len(lb)):]...), nil)
	case 7: // wrap in a quote
		out = QuoteDoc(r, out)
	case 8: // wrap in a list item
		out = ListItemDoc(out, listMarkers[r.Intn(len(listMarkers))], r.Range(1, 4))
	case 9: // drop the final newline
		out = bytes.TrimRight(out, "\r\n")
	case 10: // cut at a random place
		if len(out) > 0 {
			out = out[:r.Intn(len(out)+1)]
		}
	case 11: // prepend blank-ish lines / indentation
		out = append([]byte([]string{"\n", "  \n", " ", "   ", "\t", "\n\n"}[r.Intn(6)]), out...)
	}
	return out
}

// SplitLines splits after every line ending (LF, CRLF, CR), keeping them.
func SplitLines(doc []byte) [][]byte {
	var out [][]byte
	start := 0
	for i := 0; i < len(doc); i++ {
		switch doc[i] {
		case '\n':
			out = append(out, doc[start:i+1])
			start = i + 1
		case '\r':
			if i+1 < len(doc) && doc[i+1] == '\n' {
				i++
			}
			out = append(out, doc[start:i+1])
			start = i + 1
		}
	}
	if start < len(doc) {
		out = append(out, doc[start:])
	}
	return out
}

func isBlank(line []byte) bool {
	for _, c := range line {
		if c != ' ' && c != '\t' && c != '\n' && c != '\r' {
			return false
		}
	}
	return true
}

// QuoteDoc prefixes every line with a block quote marker.
func QuoteDoc(r *core.Rand, doc []byte) []byte {
	var b bytes.Buffer
	for _, l := range SplitLines(doc) {
		if len(bytes.TrimRight(l, "\r\n")) == 0 && r != nil && r.Bool() {
			b.WriteString(">")
		} else {
			b.WriteString("> ")
		}
		b.Write(l)
	}
	return b.Bytes()
}

// QuoteDocNoSpace prefixes every line with a block quote marker, leaving out
// the marker's optional space wherever the line does not start with a space
// (so that the line's content is unchanged).
func QuoteDocNoSpace(doc []byte) []byte {
	var b bytes.Buffer
	for _, l := range SplitLines(doc) {
		if len(l) > 0 && (l[0] == ' ' || l[0] == '\t') {
			b.WriteString("> ")
		} else {
			b.WriteString(">")
		}
		b.Write(l)
	}
	return b.Bytes()
}

// ListItemDoc prefixes the first line with marker + n spaces and the other
// lines with the same width of spaces.
func ListItemDoc(doc []byte, marker string, n int) []byte {
	var b bytes.Buffer
	ind := strings.Repeat(" ", len(marker)+n)
	for i, l := range SplitLines(doc) {
		if i == 0 {
			b.WriteString(marker)
			b.WriteString(strings.Repeat(" ", n))
		} else {
			b.WriteString(ind)
		}
		b.Write(l)
	}
	return b.Bytes()
}

func init() {
	register("spec", func(_ *core.Rand, index uint64, _ string) ([]byte, string) {
		loadSpec()
		return append([]byte(nil), corpus[index%uint64(len(corpus))]...), "spec/corpus"
	}, func(string) uint64 { return CorpusSize() })
	register("specprefix", func(_ *core.Rand, index uint64, _ string) ([]byte, string) {
		return append([]byte(nil), prefixAt(index%PrefixCount())...), "spec/prefix"
	}, func(string) uint64 { return PrefixCount() })
	register("specmut", func(r *core.Rand, index uint64, profile string) ([]byte, string) {
		loadSpec()
		doc := corpus[r.Intn(len(corpus))]
		out := Mutate(r, doc)
		for k := r.Intn(3); k > 0; k-- {
			out = Mutate(r, out)
		}
		if profile == "tabfree" {
			out = bytes.ReplaceAll(out, []byte("\t"), []byte("  "))
		}
		return out, "spec/mutated"
	}, nil)
}
