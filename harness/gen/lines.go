package gen

import (
	"strings"

	"verif/core"
)

// The lines generator: line-structured documents in which every chunk sits in
// a stack of containers and inline constructs are deliberately split across
// lines, so that the library's line-jumping inline reader is exercised.

var words = []string{"foo", "bar", "baz", "qux", "Lorem", "ipsum", "dolor", "sit", "amet", "x", "y", "z", "alpha", "beta", "héllo", "naïve", "ß", "Ünï", "日本", "w1", "w22", "a", "I", "é"}

// body templates; {w} is a random word, newlines split lines.
var bodyTemplates = [][]string{
	// 0 paragraphs
	{"{w} {w} {w}", "{w} {w}\n{w} {w}", "{w}\n{w}\n{w}", "{w} {w}  ", "  {w} {w}", "{w}\n   {w}", "{w}\n      {w}", "{w}\n\t{w}"},
	// 1 ATX
	{"# {w}", "## {w} ##", "# <b>", "# {w} <b>", "### {w} *{w}*", "#", "# {w}\\#", "### {w} #", "# {w}#", "# {w} #  ", "###### {w}", "####### {w}", "#\t{w}", "# {w}\\ #", "## `{w}`", "# [{w}](/u)", "# {w} \\", "#  ", "# #", "## ##", "# {w} # #", "# 1. {w}", "## 2) {w}", "###### 123456789. {w}", "# 7\\. {w}", "# 42"},
	// 2 setext
	{"{w}\n===", "{w} {w}\n---", "{w}\n{w}\n=", "{w}\n  ==  ", "*{w}\n{w}*\n---", "{w}  \n{w}\n===", "{w}\\\n---", "[{w}]: /u\n===", "[{w}]: /u\n{w}\n---", "{w}\n- \n---", "`{w}\n{w}`\n==="},
	// 3 fenced
	{"```\n{w}\n```", "~~~ {w}\n{w}\n\n{w}\n~~~", "```{w}\n{w}", "````\n```\n````", "``` {w} {w}\n    {w}\n```", "   ```\n   {w}\n  {w}\n```", "~~~\n~~\n~~~~", "```\n\n```", "``` a&amp;b\\*c\n{w}\n```", "~~~ `{w}`\n~~~", "```\n{w}\n``` {w}\n```"},
	// 4 indented
	{"    {w}", "\t{w}", "    {w}\n\n    {w}", "    {w}\n      {w}", "  \t{w}", "    {w}\n    ", "     {w}\n\n", "    {w}\n \n  \n    {w}", "\t\t{w}\n\t{w}"},
	// 5 thematic breaks
	{"***", "---", "___", " * * *", "- - -", "_  _  _  ", "****\t", "--", "**"},
	// 6 HTML blocks
	{"<pre>\n{w}\n\n{w}</pre>", "<script>\n{w}\n</script> {w}", "<!-- {w}\n\n{w} -->", "<?{w}\n?>", "<!DOCTYPE {w}>", "<![CDATA[\n{w}\n]]>", "<div>\n{w}", "</div>\n*{w}*", "<a href=\"{w}\">\n{w}", "<{w} />\n{w}", "<style\n{w}", "<textarea>{w}</textarea>", "<!-->", "<!--->\n{w}", "<DIV class=\"{w}\">", "<table>\n<tr>\n\n<td>", "<p>{w}", "<b>\n{w}"},
	// 7 reference definitions
	{"[{w}]: /url", "[foo]: /u \"t\"", "[foo]:\n/url\n'title'", "[{w}]: /url 'ti\ntle'", "[foo\nbar]: /u", "[foo]: <u v> (t)", "[foo]: /u\n[bar]: /v\n{w}", "[foo]: /u \"t\" {w}", "[foo]: /u\n\"t\" {w}", "[foo]: /u\\", "[foo]: /u\\\n{w}", "[foo]: /u\n-", "[ foo ]:\n  /u\n  (t\nt)", "[foo]: /url\n[foo]: /other", "[FOO bar]: /u", "[foo]: <b\\\nc>", "[foo]: <b\\>\n{w}", "[foo]: /u \"t\\\n\"", "[foo\\\nbar]: /u", "[foo]: /u\n \"t\"\n [bar]: /v", "[foo]: /u\n\t[bar]: /v", "[foo]: /u\n \t[bar]: /v\n{w}", "[foo]: /u\n\f[bar]: /v", "[foo]: /u\n    [bar]: /v\n\t\t[baz]: /w\n\n{w}", "[foo]: /u\n  \t[bar]:\n\t/v\n\t't'\n{w}", "[foo]: /u\n\t\f [bar]: /v", "[foo]: /u\n\v[bar]: /v"},
	// 8 inline links over lines
	{"[{w}\n{w}](/url\n\"ti\ntle\")", "[{w}](<b\nc>)", "[{w}](/u\\", "[{w}](/u\n'{w}'\n)", "[{w}]( /u )", "[{w}](/u \"t\"\n{w})", "[a [b](c) d](e)", "[{w}](\n/u\n)", "[{w}](/u (t\nt))", "[{w}](<>)", "[{w}]()", "[{w}](/u\\\n)", "![{w}\n{w}](/u \"t\")", "![*{w}*](y \"z\")", "![[{w}](a)](b)", "![](x)", "![&amp;{w}](x)", "[![{w}](a)](b)", "[{w}](/a(b)c)", "[{w}](/a\\(b)", "[{w}](<b\\\nc>)", "[{w}](<b\nc>)", "[{w}](<b c\\>)", "[{w}](</u> \"t\\\nu\")", "[{w}](/u '\\\n')", "[{w}](/u (a\\\nb))", "![{w}](<\\\n>)"},
	// 9 reference links
	{"[{w}][foo\nbar]", "[foo\nbar][]", "[foo]", "[{w}][foo]", "[foo][]", "![foo]", "![{w}][foo]", "[{w}][FOO  bar]", "[foo] {w}\n[foo\nbar]", "[[foo]]", "[{w} [foo]][bar]", "[foo]: /u\n\n[foo]", "[{w}][foo\n]", "[foo\\]]"},
	// 10 code spans
	{"`{w}\n{w}`", "``{w}\n`{w}``", "` \n `", "`{w}", "`` {w} ` {w} ``", "`\n{w}\n`", "{w} `{w}\n{w}` {w}\n{w}", "```{w}``", "` {w}`\n`{w} `", "`{w}\\`"},
	// 11 raw inline html
	{"{w} <b c=\"d\ne\"> {w}", "{w} <!-- c\nd --> {w}", "{w} <?p\n?> {w}", "{w} <![CDATA[x\ny]]> {w}", "{w} <a\n/> {w}", "{w} <a b='c'\nd=e> {w}", "{w} </a\n> {w}", "{w} <!X y\nz> {w}", "{w} <b> {w}\n{w} </b>", "{w} <b>", "{w} <b\n>", "{w} <!---> {w}", "{w} <!-- a--b --> {w}", "{w} <a href=\"\\\"\">", "{w}<br/>\n{w}<i>"},
	// 12 emphasis
	{"*{w}\n{w}*", "**{w} *{w}\n{w}* {w}**", "_{w}_{w}_", "***{w}***", "*{w}**{w}*", "__{w}\n__", "*{w} _{w}* {w}_", "{w}*_*_*a*a{w}", "**{w}*", "*[{w}*](/u)", "*{w} `*`"},
	// 13 hard/soft breaks
	{"{w}\\\n{w}", "{w}  \n{w}", "{w}\\", "{w}  ", "{w}   \n   {w}", "{w}\\\n  {w}", "{w} \n{w}", "*{w}\\\n{w}*", "{w}\\\n\\\n{w}", "{w}  \n  \n"},
	// 14 entities and escapes
	{"\\é", "&amp;\n&#x41;", "{w}\\\\", "\\*{w}\\*", "&#0; &#xD800; &#x110000;", "&copy;{w}&nosuch;", "\\{w}", "{w}\\\t{w}", "&#xGG; &#x4a;", "\\&amp;", "&amp\n;"},
	// 15 autolinks
	{"<http://a.b/c>", "<{w}@{w}.com>", "<a+b:c d>", "<http://a.b/c\n>", "<mailto:{w}>", "<http://a.b/é%GG>", "<a:>", "<ab:<>"},
	// 15b constructs ending in a backslash (at the end of a line or of the input)
	{"``` {w}\\", "~~~ \\\n{w}\n~~~", "``` {w} \\\\", "[foo]: /u \"t\\", "[foo]: /u\\\n\"t\"", "[{w}](/u \"t\\", "[{w}](/u\\", "[{w}\\](/u)", "`{w}\\", "<a href=\"\\", "# {w} \\", "{w} <b\\", "[foo\\]: /u", "![{w}\\", "<http://a.b/\\>", "&amp;\\", "*{w}\\*", "    {w}\\", "> {w}\\", "- {w}\\\n- \\"},
	// 16 nested lists (own markers)
	{"- {w}\n  - {w}\n    - {w}", "1. {w}\n\n   {w}", "- {w}\n\n- {w}", "* {w}\n* {w}\n\n  {w}", "- {w}\n- \n- {w}", "1) {w}\n2) {w}\n3. {w}", "-\n  {w}", "- \n\n  {w}", "- {w}\n\n\n  {w}", "10. {w}\n    {w}", "- # {w}\n  {w}", "- # <b>\n  {w}", "- ```\n  {w}\n  ```\n- {w}", "1. 1.     * {w}\n\n      * * *\n2. {w}", "- <div>\n\n  {w}\n- {w}", "-   {w}\n\n    {w}", "-     {w}\n\n  {w}", "- {w}\n > {w}", "+ {w}\n- {w}"},
	// 17 quotes (own markers)
	{"> {w}\n{w}", "> {w}\n> > {w}\n{w}", ">{w}\n>\n> {w}", "> ```\n{w}", "> - {w}\n>\n>   {w}", ">     {w}\n>\n>     {w}", "> [foo]: /u\n> 'ti\n> tle'", "> [{w}](/u\n> 'ti\n> tle')", "> `{w}\n> {w}`", "> <a\n> b=\"c\n> d\">", "> {w}\n===", "> # {w}\n> {w}", ">\t{w}", " >  {w}\n>{w}"},
}

type lineContainer struct {
	quote  bool
	marker string // list marker incl. delimiter
	pad    int    // spaces after the marker
	fresh  bool   // marker not yet emitted
}

func (c *lineContainer) width() int { return len(c.marker) + c.pad }

var contIndents = []string{"\t", " \t", "  \t", "   \t", "\t\t", "\t ", "   ", "    ", "     ", "\f", " \f", "\t\f "}

var listMarkers = []string{"-", "+", "*", "1.", "2)", "7.", "10.", "123456789)", "0."}

func fillWords(r *core.Rand, t string) string {
	for strings.Contains(t, "{w}") {
		t = strings.Replace(t, "{w}", words[r.Intn(len(words))], 1)
	}
	return t
}

// Lines builds one document.
func Lines(r *core.Rand, profile string) []byte {
	var sb strings.Builder
	eol := "\n"
	mixedEOL := false
	switch r.Intn(12) {
	case 0:
		eol = "\r\n"
	case 1:
		eol = "\r"
	case 2:
		mixedEOL = true
	}
	if profile == "lf" || profile == "tabfree" {
		eol, mixedEOL = "\n", false
	}
	nextEOL := func() string {
		if mixedEOL {
			return []string{"\n", "\r\n", "\r"}[r.Intn(3)]
		}
		return eol
	}
	var stack []lineContainer
	nChunks := r.Range(1, 6)
	for ci := 0; ci < nChunks; ci++ {
		// adjust the container stack
		switch r.Intn(8) {
		case 0, 1:
			if len(stack) < 4 {
				stack = append(stack, lineContainer{quote: true})
			}
		case 2, 3:
			if len(stack) < 4 {
				stack = append(stack, lineContainer{marker: listMarkers[r.Intn(len(listMarkers))], pad: r.Range(1, 4), fresh: true})
			}
		case 4:
			if len(stack) > 0 {
				stack = stack[:len(stack)-1]
			}
		case 5:
			if len(stack) > 0 && !stack[len(stack)-1].quote {
				// next item of the same list
				stack[len(stack)-1].fresh = true
			}
		}
		group := bodyTemplates[r.Intn(len(bodyTemplates))]
		body := fillWords(r, group[r.Intn(len(group))])
		if profile == "tabfree" {
			body = strings.ReplaceAll(body, "\t", "  ")
		}
		bodyLines := strings.Split(body, "\n")
		for li, line := range bodyLines {
			if li > 0 && line != "" && profile != "tabfree" && r.Intn(16) == 0 {
				// extra white space in front of a continuation line: tabs, mixed runs, form feed
				line = contIndents[r.Intn(len(contIndents))] + line
			}
			// prefix
			for si := range stack {
				c := &stack[si]
				wrong := r.Intn(40) == 0 && li > 0
				if c.quote {
					if wrong {
						continue // lazy continuation / container closing
					}
					switch k := r.Intn(40); {
					case k < 34: // mostly 0
					case k < 37:
						sb.WriteByte(' ')
					default:
						sb.WriteString(strings.Repeat(" ", k-35)) // 2 or 3, 4 once in a while
					}
					sb.WriteByte('>')
					if line != "" || si < len(stack)-1 || r.Bool() {
						switch k := r.Intn(20); {
						case k < 2:
						case k == 2 && profile != "tabfree":
							sb.WriteByte('\t') // the optional space is one column of the tab
						case k == 3 && profile != "tabfree":
							sb.WriteString(" \t")
						default:
							sb.WriteByte(' ')
						}
					}
				} else if c.fresh {
					c.fresh = false
					sb.WriteString(c.marker)
					sb.WriteString(strings.Repeat(" ", c.pad))
				} else {
					w := c.width()
					if wrong {
						w -= 1 + r.Intn(2)
						if w < 0 {
							w = 0
						}
					}
					if line == "" && si == len(stack)-1 && r.Bool() {
						w = 0
					}
					if w > 0 && profile != "tabfree" && r.Intn(12) == 0 {
						// the same indentation written with a tab that overshoots it (partly consumed)
						sb.WriteString(strings.Repeat(" ", r.Intn(w)) + "\t")
					} else {
						sb.WriteString(strings.Repeat(" ", w))
					}
				}
			}
			if profile == "hostile" && r.Intn(10) == 0 {
				// hostile first bytes of the line's content (right after a possibly split tab)
				line = []string{"\x00", "\x00\x00", "\xc3", "\\", "\r", "\x00]", "\t\x00"}[r.Intn(7)] + line
			}
			sb.WriteString(line)
			if ci == nChunks-1 && li == len(bodyLines)-1 && r.Intn(3) == 0 {
				break // no final line ending
			}
			sb.WriteString(nextEOL())
		}
		// blank line between chunks
		if ci < nChunks-1 && r.Intn(10) < 6 {
			if r.Intn(4) == 0 {
				for si := range stack {
					if stack[si].quote {
						sb.WriteString(">")
					} else {
						break
					}
				}
			}
			sb.WriteString(nextEOL())
		}
	}
	out := []byte(sb.String())
	if profile == "hostile" && len(out) > 0 {
		// overwrite a few bytes with hostile ones
		for k := r.Intn(4); k > 0; k-- {
			out[r.Intn(len(out))] = []byte{0, 0xff, '\r', 0xc3, '\t', 0x80}[r.Intn(6)]
		}
	}
	return out
}

func init() {
	register("lines", func(r *core.Rand, index uint64, profile string) ([]byte, string) {
		return Lines(r, profile), "lines/" + profile
	}, nil)
}
