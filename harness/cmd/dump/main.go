// Command dump prints the parsed tree of each argument (Go-quoted without the quotes).
package main

import (
	"fmt"
	"os"
	"strconv"

	"verif/core"
)

func main() {
	for _, a := range os.Args[1:] {
		s, err := strconv.Unquote(`"` + a + `"`)
		if err != nil {
			s = a
		}
		blocks, refs, _ := core.ParseCopy([]byte(s))
		fmt.Printf("%q\n%s\n", s, core.DumpBlocks(blocks, refs))
	}
}
