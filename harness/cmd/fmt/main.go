package main

import (
	"fmt"
	"os"
	"strconv"
	"strings"
	"zombiezen.com/go/commonmark"
	"zombiezen.com/go/commonmark/format"
)

func main() {
	for _, a := range os.Args[1:] {
		s, err := strconv.Unquote(`"` + a + `"`)
		if err != nil {
			s = a
		}
		blocks, refs := commonmark.Parse([]byte(s))
		var sb, h1, h2 strings.Builder
		format.Format(&sb, blocks)
		commonmark.RenderHTML(&h1, blocks, refs)
		b2, r2 := commonmark.Parse([]byte(sb.String()))
		commonmark.RenderHTML(&h2, b2, r2)
		fmt.Printf("%q\n  fmt=> %q\n  html1 %q\n  html2 %q same=%v\n", s, sb.String(), h1.String(), h2.String(), h1.String() == h2.String())
	}
}
