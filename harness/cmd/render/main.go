package main

import (
	"fmt"
	"os"
	"strconv"
	"strings"
	"zombiezen.com/go/commonmark"
)

func main() {
	for _, a := range os.Args[1:] {
		s, err := strconv.Unquote(`"` + a + `"`)
		if err != nil {
			s = a
		}
		blocks, refs := commonmark.Parse([]byte(s))
		var sb strings.Builder
		commonmark.RenderHTML(&sb, blocks, refs)
		fmt.Printf("%q\n  => %q\n", s, sb.String())
	}
}
