// Command cmcheck runs the runtime monitors of /verif against the library
// in /repo. Sub-commands: run (parent/scheduler), worker (child process that
// executes library code), replay.
package main

import (
	"flag"
	"fmt"
	"os"
	"strconv"

	"verif/core"
	"verif/gen"
	_ "verif/mon"
)

func main() {
	core.RaceEnabled = raceEnabled
	if len(os.Args) < 2 {
		usage()
	}
	switch os.Args[1] {
	case "run":
		os.Exit(cmdRun(os.Args[2:]))
	case "worker":
		os.Exit(cmdWorker(os.Args[2:]))
	case "replay":
		os.Exit(cmdReplay(os.Args[2:]))
	case "list":
		for _, id := range core.MonitorIDs() {
			fmt.Println(id)
		}
	case "sample":
		// cmcheck sample <gen> <profile> <n> [seed]: prints the first n cases of a generator
		if len(os.Args) < 5 {
			usage()
		}
		n, _ := strconv.Atoi(os.Args[4])
		seed := uint64(1)
		if len(os.Args) > 5 {
			seed, _ = strconv.ParseUint(os.Args[5], 10, 64)
		}
		for i := 0; i < n; i++ {
			in, note := gen.Generate(seed, os.Args[2], os.Args[3], uint64(i))
			fmt.Printf("%d %s %s\n", i, note, core.Quote(in))
		}
	default:
		usage()
	}
}

func usage() {
	fmt.Fprintln(os.Stderr, "usage: cmcheck run|worker|replay|list|sample ...")
	os.Exit(2)
}

type commonFlags struct {
	property string
	tier     string
	seed     uint64
	verifDir string
}

func (c *commonFlags) register(fs *flag.FlagSet) {
	fs.StringVar(&c.property, "property", "", "property id (C01..C20)")
	fs.StringVar(&c.tier, "tier", "quick", "quick|thorough")
	fs.Uint64Var(&c.seed, "seed", envSeed(), "workload seed")
	fs.StringVar(&c.verifDir, "verif-dir", "/verif", "directory holding evidence/, replays/, KNOWN_FINDINGS.txt")
}

func envSeed() uint64 {
	if s := os.Getenv("VERIF_SEED"); s != "" {
		if v, err := strconv.ParseUint(s, 10, 64); err == nil {
			return v
		}
		if v, err := strconv.ParseInt(s, 10, 64); err == nil {
			return uint64(v)
		}
	}
	return 1
}
