package main

import (
	"bufio"
	"encoding/binary"
	"encoding/json"
	"flag"
	"fmt"
	"os"
	"os/exec"
	"path/filepath"
	"regexp"
	"sort"
	"strings"
	"sync"
	"time"

	"verif/core"
	"verif/mon"
)

type job struct {
	seg        core.Segment
	segIndex   int
	from       uint64
	count      uint64
	budgetMult int
	alone      bool // re-run of a single suspicious case
	noMin      bool // the child gave up while minimising: run again without minimisation
	label      string
}

type jobOutcome struct {
	job    job
	res    *BatchResult
	died   bool   // child ended abnormally
	reason string // "death", "cpu_budget", "watchdog"
	curIdx uint64
	stderr string
	raceN  int
	race   []string
}

type segSummary struct {
	Gen          string  `json:"gen"`
	Profile      string  `json:"profile"`
	Desc         string  `json:"desc,omitempty"`
	Planned      uint64  `json:"planned_cases"`
	Cases        int64   `json:"cases"`
	NonTrivial   int64   `json:"nontrivial"`
	Violations   int64   `json:"violations"`
	Inconclusive int64   `json:"inconclusive"`
	Exhaustive   bool    `json:"exhaustive"`
	Race         bool    `json:"race_build,omitempty"`
	CPUs         float64 `json:"cpu_s"`
}

func cmdRun(args []string) int {
	fs := flag.NewFlagSet("run", flag.ExitOnError)
	var cf commonFlags
	cf.register(fs)
	workers := fs.Int("workers", 16, "parallel child processes")
	raceBin := fs.String("race-bin", "", "binary built with -race for segments that ask for it")
	workDir := fs.String("work", "", "scratch directory (default <verif-dir>/work/<property>)")
	keepWork := fs.Bool("keep-work", false, "keep the scratch directory")
	fs.Parse(args)

	m := core.Lookup(cf.property)
	if m == nil {
		fmt.Fprintln(os.Stderr, "unknown property", cf.property)
		return 2
	}
	start := time.Now()
	if *workDir == "" {
		*workDir = filepath.Join(cf.verifDir, "work", cf.property+"-"+cf.tier)
	}
	os.RemoveAll(*workDir)
	if err := os.MkdirAll(*workDir, 0o755); err != nil {
		fmt.Fprintln(os.Stderr, err)
		return 2
	}
	if !*keepWork {
		defer os.RemoveAll(*workDir)
	}
	self, _ := os.Executable()

	known := loadKnown(cf.verifDir)

	// Plan: directed cases first, then the generated workload.
	segs := []core.Segment{{Gen: "directed", Count: uint64(len(allDirected(cf.verifDir, m))), Desc: "fixtures and witnesses of fixed/known findings", Batch: 1 << 30}}
	if segs[0].Count == 0 {
		segs = segs[:0]
	}
	segs = append(segs, m.Plan(cf.tier)...)
	var jobs []job
	for si, s := range segs {
		batch := s.Batch
		if batch == 0 {
			batch = 20000
		}
		// not more than needed to keep all workers busy
		if per := (s.Count + uint64(*workers)*3 - 1) / (uint64(*workers) * 3); per < batch && per > 0 {
			batch = per
		}
		for from := uint64(0); from < s.Count; from += batch {
			n := batch
			if from+n > s.Count {
				n = s.Count - from
			}
			jobs = append(jobs, job{seg: s, segIndex: si, from: from, count: n, budgetMult: 1})
		}
	}

	sums := make([]segSummary, len(segs))
	for i, s := range segs {
		sums[i] = segSummary{Gen: s.Gen, Profile: s.Profile, Desc: s.Desc, Planned: s.Count, Exhaustive: s.Exhaustive, Race: s.Race}
	}

	agg := &BatchResult{Skipped: map[string]int64{}, ViolByCode: map[string]int64{}, Counters: map[string]int64{}, Maxes: map[string]int64{}, Recorded: map[string][]string{}}
	var allViol []ViolationRec
	var unrecorded int64
	knownHits := map[string]int64{}
	var allInconcl []ViolationRec
	var ntFiles []string
	var raceReports []string
	jobSeq := 0
	var mu sync.Mutex

	runJob := func(j job) jobOutcome {
		mu.Lock()
		jobSeq++
		id := jobSeq
		mu.Unlock()
		base := filepath.Join(*workDir, fmt.Sprintf("job%05d", id))
		bin := self
		if j.seg.Race && *raceBin != "" {
			bin = *raceBin
		}
		args := []string{"worker", "--property", cf.property, "--tier", cf.tier, "--seed", fmt.Sprint(cf.seed), "--verif-dir", cf.verifDir,
			"--gen", j.seg.Gen, "--profile", j.seg.Profile, "--from", fmt.Sprint(j.from), "--count", fmt.Sprint(j.count),
			"--out", base + ".json", "--cur", base + ".cur", "--budget-mult", fmt.Sprint(j.budgetMult)}
		if j.noMin {
			args = append(args, "--no-minimise")
		}
		cmd := exec.Command(bin, args...)
		errFile, _ := os.Create(base + ".stderr")
		cmd.Stdout = errFile
		cmd.Stderr = errFile
		cmd.Env = append(os.Environ(), "GOTRACEBACK=all")
		if j.seg.Race {
			cmd.Env = append(cmd.Env, "GORACE=halt_on_error=0 log_path="+base+".race")
		}
		out := jobOutcome{job: j}
		if err := cmd.Start(); err != nil {
			out.died, out.reason, out.stderr = true, "spawn", err.Error()
			return out
		}
		done := make(chan error, 1)
		go func() { done <- cmd.Wait() }()
		// Wall-clock watchdog only bounds the run; firing makes the batch inconclusive.
		var werr error
		select {
		case werr = <-done:
		case <-time.After(45 * time.Minute):
			cmd.Process.Signal(os.Interrupt)
			cmd.Process.Kill()
			<-done
			out.died, out.reason = true, "watchdog"
		}
		errFile.Close()
		if races, _ := filepath.Glob(base + ".race.*"); len(races) > 0 {
			for _, rf := range races {
				data, _ := os.ReadFile(rf)
				for _, blk := range strings.Split(string(data), "==================") {
					if strings.Contains(blk, "WARNING: DATA RACE") {
						out.raceN++
						out.race = append(out.race, blk)
					}
				}
			}
		}
		data, rerr := os.ReadFile(base + ".json")
		if rerr == nil {
			var r BatchResult
			if json.Unmarshal(data, &r) == nil {
				out.res = &r
				mu.Lock()
				ntFiles = append(ntFiles, base+".json.nt")
				mu.Unlock()
				return out
			}
		}
		// abnormal end
		if !out.died {
			out.died = true
			out.reason = "death"
			if ee, ok := werr.(*exec.ExitError); ok && ee.ExitCode() == 3 {
				out.reason = "cpu_budget"
			}
			if ee, ok := werr.(*exec.ExitError); ok && ee.ExitCode() == 4 {
				out.reason = "minimiser"
			}
		}
		if cb, err := os.ReadFile(base + ".cur"); err == nil && len(cb) >= 8 {
			out.curIdx = binary.LittleEndian.Uint64(cb)
		} else {
			out.curIdx = j.from
		}
		if eb, err := os.ReadFile(base + ".stderr"); err == nil {
			if len(eb) > 6000 {
				eb = append(eb[:3000:3000], eb[len(eb)-3000:]...)
			}
			out.stderr = string(eb)
		}
		return out
	}

	// scheduler
	queue := jobs
	results := make(chan jobOutcome)
	running := 0
	confirmedCrashes := 0
	for len(queue) > 0 || running > 0 {
		if confirmedCrashes >= 3 && len(queue) > 0 {
			// Three cases have each exhausted their CPU budget (or killed the child) twice.
			// The verdict cannot change any more; do not spend hours confirming more of them.
			var skipped uint64
			for _, j := range queue {
				skipped += j.count
			}
			fmt.Printf("  stopping early after %d confirmed hangs/crashes; %d planned cases were not run\n", confirmedCrashes, skipped)
			agg.Counters["cases_not_run_after_early_stop"] += int64(skipped)
			queue = nil
			if running == 0 {
				break
			}
		}
		for running < *workers && len(queue) > 0 {
			j := queue[0]
			queue = queue[1:]
			running++
			go func() { results <- runJob(j) }()
		}
		o := <-results
		running--
		if o.raceN > 0 {
			raceReports = append(raceReports, o.race...)
		}
		if o.res != nil {
			mergeResult(agg, o.res)
			for k, v := range o.res.KnownHits {
				knownHits[k] += v
			}
			s := &sums[o.job.segIndex]
			s.Cases += o.res.Cases
			s.NonTrivial += o.res.NonTrivial
			s.Violations += o.res.NViolations
			s.Inconclusive += o.res.NInconcl
			s.CPUs += float64(o.res.CPUms) / 1000
			allViol = append(allViol, o.res.Violations...)
			if extra := o.res.NViolations - int64(len(o.res.Violations)); extra > 0 {
				// more violating cases in one batch than a worker records: they cannot be
				// attributed to a known finding, so they count as new
				unrecorded += extra
			}
			allInconcl = append(allInconcl, o.res.Inconclusive...)
			continue
		}
		// child ended abnormally at o.curIdx
		j := o.job
		if o.reason == "minimiser" && !j.noMin {
			agg.Counters["batches_rerun_without_minimisation"]++
			j.noMin = true
			queue = append(queue, j)
			continue
		}
		if j.alone {
			rec := ViolationRec{Property: cf.property, Gen: j.seg.Gen, Profile: j.seg.Profile, Index: o.curIdx,
				Code: o.reason, Msg: fmt.Sprintf("child process ended (%s) on this case, twice; stderr tail:\n%s", o.reason, o.stderr)}
			fillInput(&rec, cf, m)
			if cf.property == "C04" && o.reason != "watchdog" && o.reason != "spawn" {
				confirmedCrashes++
				allViol = append(allViol, rec)
				agg.NViolations++
				agg.ViolByCode[o.reason]++
				sums[j.segIndex].Violations++
			} else {
				allInconcl = append(allInconcl, rec)
				agg.NInconcl++
				sums[j.segIndex].Inconclusive++
			}
			continue
		}
		if o.reason == "watchdog" || o.reason == "spawn" {
			rec := ViolationRec{Property: cf.property, Gen: j.seg.Gen, Profile: j.seg.Profile, Index: j.from, Code: o.reason, Msg: fmt.Sprintf("batch [%d,+%d) inconclusive: %s", j.from, j.count, o.reason)}
			allInconcl = append(allInconcl, rec)
			agg.NInconcl += int64(j.count)
			sums[j.segIndex].Inconclusive += int64(j.count)
			continue
		}
		// re-run the suspicious case alone with 4x budget, and the rest of the batch around it
		idx := o.curIdx
		if idx < j.from || idx >= j.from+j.count {
			idx = j.from
		}
		queue = append(queue, job{seg: j.seg, segIndex: j.segIndex, from: idx, count: 1, budgetMult: 4, alone: true})
		if idx > j.from {
			queue = append(queue, job{seg: j.seg, segIndex: j.segIndex, from: j.from, count: idx - j.from, budgetMult: 1})
		}
		if idx+1 < j.from+j.count {
			queue = append(queue, job{seg: j.seg, segIndex: j.segIndex, from: idx + 1, count: j.from + j.count - idx - 1, budgetMult: 1})
		}
	}

	// race reports become violations (C19) — deduplicated by the pair of library entry frames
	raceKeys := map[string]string{}
	for _, blk := range raceReports {
		raceKeys[raceKey(blk)] = blk
	}
	var raceKeyList []string
	for k := range raceKeys {
		raceKeyList = append(raceKeyList, k)
	}
	sort.Strings(raceKeyList)
	for _, k := range raceKeyList {
		rec := ViolationRec{Property: cf.property, Gen: "race-detector", Code: "data_race", Msg: "entry pair " + k + "\n" + raceKeys[k], Quoted: k}
		allViol = append(allViol, rec)
		agg.NViolations++
		agg.ViolByCode["data_race"]++
	}
	agg.Counters["race_reports_total"] = int64(len(raceReports))
	agg.Counters["race_reports_distinct"] = int64(len(raceKeys))

	distinctNT, ntLowerBound := countDistinct(ntFiles)

	// classify violations: known findings vs new
	type outViol struct {
		rec   ViolationRec
		known *KnownFinding
	}
	var classified []outViol
	knownWitnessSeen := map[string]bool{}
	for _, v := range allViol {
		var hit *KnownFinding
		if v.KnownID != "" {
			for i := range known {
				if known[i].ID == v.KnownID {
					hit = &known[i]
				}
			}
		} else if v.Gen != "race-detector" {
			hit = matchKnown(known, cf.property, v.Code, v.minInput())
			if hit != nil {
				knownHits[hit.ID]++
			}
		}
		if hit != nil {
			if v.Gen == "directed" && strings.Contains(v.Note, "finding "+hit.ID+":") {
				knownWitnessSeen[hit.ID] = true
			}
		}
		classified = append(classified, outViol{v, hit})
	}

	// write replay files for new violations: distinct by (code, minimised input), shortest first
	sort.SliceStable(classified, func(i, j int) bool {
		return len(classified[i].rec.minInput()) < len(classified[j].rec.minInput())
	})
	replayDir := filepath.Join(cf.verifDir, "replays", cf.property)
	seen := map[string]bool{}
	perCode := map[string]int{}
	var violLines []string
	newViolations := 0
	for _, cv := range classified {
		if cv.known != nil {
			continue
		}
		key := cv.rec.Code + "\x00" + string(cv.rec.minInput()) + "\x00" + cv.rec.Gen
		if cv.rec.Gen == "race-detector" {
			key = cv.rec.Code + cv.rec.Quoted
		}
		if seen[key] {
			continue
		}
		seen[key] = true
		newViolations++
		perCode[cv.rec.Code]++
		if len(violLines) >= 20 || perCode[cv.rec.Code] > 4 {
			continue
		}
		os.MkdirAll(replayDir, 0o755)
		name := fmt.Sprintf("%s-%016x.json", sanitize(cv.rec.Code), core.HashString(key))
		path := filepath.Join(replayDir, name)
		rf := ReplayFile{ViolationRec: cv.rec, Tier: cf.tier, Seed: cf.seed}
		data, _ := json.MarshalIndent(rf, "", " ")
		os.WriteFile(path, data, 0o644)
		rel, err := filepath.Rel(cf.verifDir, path)
		if err != nil {
			rel = path
		}
		violLines = append(violLines, fmt.Sprintf("VIOLATION property=%s replay=%s", cf.property, rel))
		fmt.Printf("  [%s] %s :: %s\n", cv.rec.Code, cv.rec.Quoted, firstLine(pickMsg(cv.rec)))
	}

	if dump := os.Getenv("VERIF_DUMP"); dump != "" {
		var sb strings.Builder
		for _, cv := range classified {
			k := "NEW"
			if cv.known != nil {
				k = cv.known.ID
			}
			fmt.Fprintf(&sb, "%s\t%s\t%s\t%s\t%s\n", k, cv.rec.Code, cv.rec.Gen, cv.rec.Quoted, strings.ReplaceAll(pickMsg(cv.rec), "\n", " | "))
		}
		os.WriteFile(dump, []byte(sb.String()), 0o644)
	}

	if unrecorded > 0 {
		fmt.Printf("  %d further violating cases were counted but not recorded (more than 400 in one batch); they count as unlisted violations\n", unrecorded)
		if newViolations == 0 {
			fmt.Printf("VIOLATION property=%s replay=%s\n", cf.property, "evidence/"+cf.property+".json")
		}
		newViolations += int(unrecorded)
	}

	// coverage gates
	var gateFailures []string
	if g, ok := m.(core.Gater); ok {
		gateFailures = g.Gates(cf.tier, agg.Counters)
	}
	if agg.Cases == 0 {
		gateFailures = append(gateFailures, "no case was executed")
	}
	for i := range sums {
		if sums[i].Planned > 0 && sums[i].Cases == 0 {
			gateFailures = append(gateFailures, fmt.Sprintf("generator %s/%s executed no case", sums[i].Gen, sums[i].Profile))
		}
	}

	// evidence
	ev := buildEvidence(cf, m, agg, sums, distinctNT, ntLowerBound, allInconcl, knownHits, known, newViolations, gateFailures, time.Since(start).Seconds())
	evPath := filepath.Join(cf.verifDir, "evidence", cf.property+".json")
	os.MkdirAll(filepath.Dir(evPath), 0o755)
	data, _ := json.MarshalIndent(ev, "", " ")
	os.WriteFile(evPath, append(data, '\n'), 0o644)

	for _, kf := range known {
		if kf.Status == "known" && kf.hasProperty(cf.property) && knownWitnessSeen[kf.ID] {
			fmt.Printf("KNOWN-FINDING: property=%s %s %s (attributed cases this run: %d)\n", cf.property, kf.ID, kf.What, knownHits[kf.ID])
		} else if kf.Status == "known" && kf.hasProperty(cf.property) {
			fmt.Printf("note: known finding %s did not reproduce on its witness in this run\n", kf.ID)
		}
	}
	for _, l := range violLines {
		fmt.Println(l)
	}
	if newViolations > 0 {
		fmt.Printf("distinct new violations by code: %v\n", perCode)
	}
	fmt.Printf("%s %s seed=%d: cases=%d nontrivial_distinct=%d violations(new)=%d known_attributed=%d inconclusive=%d wall=%.1fs\n",
		cf.property, cf.tier, cf.seed, agg.Cases, distinctNT, newViolations, sumMap(knownHits), agg.NInconcl, time.Since(start).Seconds())
	if newViolations > 0 {
		return 1
	}
	if len(gateFailures) > 0 {
		for _, g := range gateFailures {
			fmt.Println("INCONCLUSIVE (coverage gate):", g)
		}
		return 2
	}
	if agg.Cases > 0 && agg.NInconcl*2 > agg.Cases {
		fmt.Println("INCONCLUSIVE: more than half of the cases were inconclusive")
		return 2
	}
	return 0
}

func pickMsg(v ViolationRec) string {
	if v.MinMsg != "" {
		return v.MinMsg
	}
	return v.Msg
}

func firstLine(s string) string {
	if i := strings.IndexByte(s, '\n'); i >= 0 {
		s = s[:i]
	}
	if len(s) > 300 {
		s = s[:300] + "..."
	}
	return s
}

func sumMap(m map[string]int64) int64 {
	var t int64
	for _, v := range m {
		t += v
	}
	return t
}

func sanitize(s string) string {
	var sb strings.Builder
	for _, c := range s {
		if c >= 'a' && c <= 'z' || c >= 'A' && c <= 'Z' || c >= '0' && c <= '9' || c == '_' || c == '-' {
			sb.WriteRune(c)
		} else {
			sb.WriteByte('_')
		}
	}
	if sb.Len() > 40 {
		return sb.String()[:40]
	}
	return sb.String()
}

func fillInput(rec *ViolationRec, cf commonFlags, m core.Monitor) {
	defer func() { recover() }()
	c := regenerate(cf, m, rec.Gen, rec.Profile, rec.Index)
	if c != nil {
		*rec = mkRec(cf.property, rec.Profile, c, rec.Code, rec.Msg)
	}
}

func mergeResult(a, r *BatchResult) {
	a.Cases += r.Cases
	a.NonTrivial += r.NonTrivial
	a.NViolations += r.NViolations
	a.NInconcl += r.NInconcl
	a.CPUms += r.CPUms
	for k, v := range r.Skipped {
		a.Skipped[k] += v
	}
	for k, v := range r.ViolByCode {
		a.ViolByCode[k] += v
	}
	for k, v := range r.Counters {
		a.Counters[k] += v
	}
	for k, v := range r.Maxes {
		if v > a.Maxes[k] {
			a.Maxes[k] = v
		}
	}
	for k, v := range r.Recorded {
		if len(a.Recorded[k]) < 3 {
			a.Recorded[k] = append(a.Recorded[k], v...)
			if len(a.Recorded[k]) > 3 {
				a.Recorded[k] = a.Recorded[k][:3]
			}
		}
	}
	if r.MaxCaseCPUms > a.MaxCaseCPUms {
		a.MaxCaseCPUms = r.MaxCaseCPUms
		a.MaxCaseInput = r.MaxCaseInput
	}
	// keep a bounded, varied sample set: at most 3 per generator
	perGen := map[string]int{}
	for _, s := range a.Samples {
		perGen[s.Gen]++
	}
	for _, s := range r.Samples {
		if perGen[s.Gen] < 3 && len(a.Samples) < 24 {
			a.Samples = append(a.Samples, s)
			perGen[s.Gen]++
		}
	}
}

// countDistinct counts distinct 64-bit hashes over the workers' files. Above
// 40M hashes only those with h%8==0 are counted, which is a lower bound.
func countDistinct(files []string) (int64, bool) {
	var total int64
	for _, f := range files {
		if st, err := os.Stat(f); err == nil {
			total += st.Size() / 8
		}
	}
	sample := total > 40_000_000
	hashes := make([]uint64, 0, total)
	var buf [8]byte
	for _, f := range files {
		fh, err := os.Open(f)
		if err != nil {
			continue
		}
		r := bufio.NewReaderSize(fh, 1<<20)
		for {
			if _, err := readFull(r, buf[:]); err != nil {
				break
			}
			h := binary.LittleEndian.Uint64(buf[:])
			if sample && h%8 != 0 {
				continue
			}
			hashes = append(hashes, h)
		}
		fh.Close()
	}
	sort.Slice(hashes, func(i, j int) bool { return hashes[i] < hashes[j] })
	var n int64
	for i, h := range hashes {
		if i == 0 || h != hashes[i-1] {
			n++
		}
	}
	return n, sample
}

func readFull(r *bufio.Reader, b []byte) (int, error) {
	n := 0
	for n < len(b) {
		m, err := r.Read(b[n:])
		n += m
		if err != nil {
			return n, err
		}
	}
	return n, nil
}

var raceFrameRe = regexp.MustCompile(`(?m)^\s+(zombiezen\.com/go/commonmark[^\s(]*)\(`)

// raceKey names a report by the outermost library frames of its two stacks.
func raceKey(blk string) string {
	parts := strings.Split(blk, "\n\n")
	var keys []string
	for _, p := range parts {
		if !(strings.Contains(p, "by goroutine") && (strings.Contains(p, "rite at") || strings.Contains(p, "ead at"))) {
			continue
		}
		ms := raceFrameRe.FindAllStringSubmatch(p, -1)
		if len(ms) > 0 {
			keys = append(keys, ms[len(ms)-1][1]+"/"+ms[0][1])
		} else {
			keys = append(keys, "?")
		}
	}
	sort.Strings(keys)
	return strings.Join(keys, " <-> ")
}

// Evidence mirrors EVIDENCE.schema.json.
type Evidence struct {
	PropertyID  string         `json:"property_id"`
	Tier        string         `json:"tier"`
	Seed        int64          `json:"seed"`
	Level       string         `json:"level"`
	Coverage    map[string]any `json:"coverage"`
	Assumptions []string       `json:"assumptions"`
	WallS       float64        `json:"wall_s"`
	Violations  int            `json:"violations"`
}

func buildEvidence(cf commonFlags, m core.Monitor, agg *BatchResult, sums []segSummary, distinctNT int64, ntLower bool,
	inconcl []ViolationRec, knownHits map[string]int64, known []KnownFinding, newViol int, gates []string, wall float64) *Evidence {
	cov := map[string]any{}
	cov["evaluations"] = agg.Cases
	cov["distinct_nontrivial"] = distinctNT
	rule := m.Rule()
	if ntLower {
		rule += " (distinct count is a lower bound: more than 40M non-trivial cases, only hashes = 0 mod 8 were counted)"
	}
	cov["rule"] = rule
	cov["nontrivial_total"] = agg.NonTrivial
	samples := []any{}
	for _, s := range agg.Samples {
		samples = append(samples, s)
	}
	if len(samples) == 0 {
		samples = append(samples, "no sample recorded")
	}
	cov["samples"] = samples
	exh := false
	var exhList []string
	for _, s := range sums {
		if s.Exhaustive && uint64(s.Cases) == s.Planned {
			exhList = append(exhList, fmt.Sprintf("%s/%s (%d cases)", s.Gen, s.Profile, s.Cases))
		}
	}
	allExh := len(sums) > 0
	for _, s := range sums {
		if s.Gen != "directed" && !(s.Exhaustive && uint64(s.Cases) == s.Planned) {
			allExh = false
		}
	}
	exh = allExh
	cov["exhaustive"] = exh
	cov["exhaustive_subspaces"] = exhList
	cov["generators"] = sums
	// split counters into what the monitor saw
	observed := map[string]int64{}
	recorded := map[string]int64{}
	for k, v := range agg.Counters {
		if strings.HasPrefix(k, "recorded:") {
			recorded[k[len("recorded:"):]] = v
		} else {
			observed[k] = v
		}
	}
	cov["observed"] = observed
	cov["observed_max"] = agg.Maxes
	if len(recorded) > 0 {
		cov["recorded_not_judged"] = recorded
		cov["recorded_examples"] = agg.Recorded
	}
	cov["skipped"] = agg.Skipped
	cov["inconclusive_cases"] = agg.NInconcl
	if len(inconcl) > 0 {
		var l []any
		for i, r := range inconcl {
			if i >= 10 {
				break
			}
			l = append(l, map[string]any{"gen": r.Gen, "index": r.Index, "reason": firstLine(r.Msg), "input": r.Quoted})
		}
		cov["inconclusive_examples"] = l
	}
	cov["violations_by_code"] = agg.ViolByCode
	kf := map[string]any{}
	var fixedChecked []string
	for _, k := range known {
		if !k.hasProperty(cf.property) {
			continue
		}
		if k.Status == "known" {
			kf[k.ID] = map[string]any{"what": k.What, "attributed_cases": knownHits[k.ID]}
		} else {
			fixedChecked = append(fixedChecked, k.ID+" "+k.Commit+" "+k.What)
		}
	}
	cov["known_findings_reproduced"] = kf
	cov["fixed_findings_rechecked"] = fixedChecked
	cov["max_case_cpu_ms"] = agg.MaxCaseCPUms
	cov["max_case"] = agg.MaxCaseInput
	cov["cpu_s_total"] = float64(agg.CPUms) / 1000
	if len(gates) > 0 {
		cov["coverage_gate_failures"] = gates
	}
	verdict := "held on everything observed"
	if newViol > 0 {
		verdict = "violated"
	} else if len(gates) > 0 {
		verdict = "inconclusive"
	}
	cov["verdict"] = verdict
	ev := &Evidence{PropertyID: cf.property, Tier: cf.tier, Seed: int64(cf.seed), Level: "exploration", Coverage: cov,
		WallS: wall, Violations: newViol,
		Assumptions: mon.Assumptions(cf.property)}
	return ev
}
