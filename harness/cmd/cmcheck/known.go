package main

import (
	"os"
	"path/filepath"
	"strconv"
	"strings"
)

// KnownFinding is one line of KNOWN_FINDINGS.txt. The file is committed and
// never written at run time.
//
//	known: property=C09 id=KF07 code=child_differs trigger=name witness="..." what=...
//	fixed: property=C01,C08 id=F01 commit=abc123 witness="hello" [expect="<p>hello</p>"] what=...
type KnownFinding struct {
	Status     string // "known" or "fixed"
	Properties []string
	ID         string
	Code       string
	Trigger    string
	Commit     string
	Witness    []byte
	// Expect is the HTML that the CommonMark mapping assigns to the witness; C06
	// judges the witness against it (the other properties need no expectation).
	Expect []byte
	What   string
}

func (k *KnownFinding) hasProperty(id string) bool {
	for _, p := range k.Properties {
		if p == id {
			return true
		}
	}
	return false
}

func loadKnown(verifDir string) []KnownFinding {
	data, err := os.ReadFile(filepath.Join(verifDir, "KNOWN_FINDINGS.txt"))
	if err != nil {
		return nil
	}
	var out []KnownFinding
	for _, line := range strings.Split(string(data), "\n") {
		line = strings.TrimSpace(line)
		var kf KnownFinding
		switch {
		case strings.HasPrefix(line, "known:"):
			kf.Status = "known"
			line = line[len("known:"):]
		case strings.HasPrefix(line, "fixed:"):
			kf.Status = "fixed"
			line = line[len("fixed:"):]
		default:
			continue
		}
		rest := strings.TrimSpace(line)
		for rest != "" {
			eq := strings.IndexByte(rest, '=')
			if eq < 0 {
				break
			}
			key := rest[:eq]
			rest = rest[eq+1:]
			var val string
			if key == "what" {
				val, rest = rest, ""
			} else if strings.HasPrefix(rest, "\"") {
				q, err := strconv.QuotedPrefix(rest)
				if err != nil {
					break
				}
				val, _ = strconv.Unquote(q)
				rest = strings.TrimSpace(rest[len(q):])
			} else {
				sp := strings.IndexByte(rest, ' ')
				if sp < 0 {
					val, rest = rest, ""
				} else {
					val, rest = rest[:sp], strings.TrimSpace(rest[sp+1:])
				}
			}
			switch key {
			case "property":
				kf.Properties = strings.Split(val, ",")
			case "id":
				kf.ID = val
			case "code":
				kf.Code = val
			case "trigger":
				kf.Trigger = val
			case "commit":
				kf.Commit = val
			case "witness":
				kf.Witness = []byte(val)
			case "expect":
				kf.Expect = []byte(val)
			case "what":
				kf.What = val
			}
		}
		if len(kf.Properties) > 0 {
			out = append(out, kf)
		}
	}
	return out
}
