package main

import (
	"encoding/base64"
	"encoding/binary"
	"encoding/json"
	"flag"
	"fmt"
	"os"
	"runtime"
	"runtime/debug"
	"strings"
	"sync/atomic"
	"syscall"
	"time"

	"verif/core"
	"verif/gen"
	"verif/mon"
)

// ViolationRec is one refuting case as written by a worker.
type ViolationRec struct {
	Property string `json:"property"`
	Gen      string `json:"gen"`
	Profile  string `json:"profile"`
	Index    uint64 `json:"index"`
	CaseSeed uint64 `json:"case_seed"`
	Note     string `json:"note"`
	Code     string `json:"code"`
	Msg      string `json:"msg"`
	Input    string `json:"input_b64"`
	MinInput string `json:"min_input_b64,omitempty"`
	MinMsg   string `json:"min_msg,omitempty"`
	Quoted   string `json:"input_quoted"`
	KnownID  string `json:"known_id,omitempty"` // set by the worker when the case is attributed to a listed finding
}

func (v *ViolationRec) input() []byte {
	b, _ := base64.StdEncoding.DecodeString(v.Input)
	return b
}

func (v *ViolationRec) minInput() []byte {
	if v.MinInput == "" {
		return v.input()
	}
	b, _ := base64.StdEncoding.DecodeString(v.MinInput)
	return b
}

type Sample struct {
	Gen        string `json:"gen"`
	Index      uint64 `json:"index"`
	Note       string `json:"note"`
	Len        int    `json:"len"`
	Input      string `json:"input"`
	NonTrivial bool   `json:"nontrivial"`
}

// BatchResult is what a worker writes when it finishes a batch.
type BatchResult struct {
	Gen          string              `json:"gen"`
	Profile      string              `json:"profile"`
	From         uint64              `json:"from"`
	Count        uint64              `json:"count"`
	Cases        int64               `json:"cases"`
	NonTrivial   int64               `json:"nontrivial"`
	Skipped      map[string]int64    `json:"skipped"`
	Inconclusive []ViolationRec      `json:"inconclusive"`
	NInconcl     int64               `json:"n_inconclusive"`
	Violations   []ViolationRec      `json:"violations"`
	NViolations  int64               `json:"n_violations"`
	ViolByCode   map[string]int64    `json:"viol_by_code"`
	Counters     map[string]int64    `json:"counters"`
	Maxes        map[string]int64    `json:"maxes"`
	Recorded     map[string][]string `json:"recorded"`
	Samples      []Sample            `json:"samples"`
	CPUms        int64               `json:"cpu_ms"`
	MaxCaseCPUms int64               `json:"max_case_cpu_ms"`
	MaxCaseInput string              `json:"max_case_input"`
	KnownHits    map[string]int64    `json:"known_hits"` // attributed cases per listed finding (all of them, recorded or not)
}

func processCPU() time.Duration {
	var ru syscall.Rusage
	syscall.Getrusage(syscall.RUSAGE_SELF, &ru)
	return time.Duration(ru.Utime.Nano() + ru.Stime.Nano())
}

// cpuBudget is B(S) of DESIGN section 1.
func cpuBudget(size int, mult int) time.Duration {
	// A case is reported only after it also exhausted 4x this budget when re-run alone,
	// i.e. >= 100x the worst CPU time measured on the unchanged tree for its size class
	// (0.25 s up to 1 KiB, 4 s up to 16 KiB, 12 s above).
	b := 30 * time.Second
	if size > 1024 {
		b = 120 * time.Second
	}
	if size > 16*1024 {
		b = 300 * time.Second
	}
	return b * time.Duration(mult)
}

func cmdWorker(args []string) int {
	fs := flag.NewFlagSet("worker", flag.ExitOnError)
	var cf commonFlags
	cf.register(fs)
	genName := fs.String("gen", "", "generator")
	profile := fs.String("profile", "", "generator profile")
	from := fs.Uint64("from", 0, "first index")
	count := fs.Uint64("count", 1, "number of cases")
	out := fs.String("out", "", "result file")
	cur := fs.String("cur", "", "current-case file")
	budgetMult := fs.Int("budget-mult", 1, "CPU budget multiplier")
	noMin := fs.Bool("no-minimise", false, "do not minimise violating inputs")
	fs.Parse(args)
	if os.Getenv("VERIF_NOMIN") != "" {
		*noMin = true
	}

	m := core.Lookup(cf.property)
	if m == nil {
		fmt.Fprintln(os.Stderr, "unknown property", cf.property)
		return 2
	}
	if !raceEnabled {
		// Address-space cap so that a memory blow-up kills this child, not the machine.
		lim := syscall.Rlimit{Cur: 12 << 30, Max: 12 << 30}
		syscall.Setrlimit(syscall.RLIMIT_AS, &lim)
	}
	debug.SetGCPercent(200)

	res := &BatchResult{Gen: *genName, Profile: *profile, From: *from, Count: *count,
		Skipped: map[string]int64{}, ViolByCode: map[string]int64{}, KnownHits: map[string]int64{}}
	ctx := core.NewCtx(cf.tier)
	known := loadKnown(cf.verifDir)
	knownRecorded := map[string]int{}

	var curFile *os.File
	if *cur != "" {
		var err error
		curFile, err = os.OpenFile(*cur, os.O_CREATE|os.O_WRONLY|os.O_TRUNC, 0o644)
		if err != nil {
			fmt.Fprintln(os.Stderr, err)
			return 2
		}
	}
	ntFile, err := os.Create(*out + ".nt")
	if err != nil {
		fmt.Fprintln(os.Stderr, err)
		return 2
	}
	defer ntFile.Close()

	// CPU watchdog: a case that burns more than its budget of process CPU time
	// ends the child with exit code 3; the parent re-runs it alone.
	var caseStartCPU, caseBudget, minStartCPU int64
	atomic.StoreInt64(&caseStartCPU, -1)
	atomic.StoreInt64(&minStartCPU, -1)
	go func() {
		for {
			time.Sleep(100 * time.Millisecond)
			if ms := atomic.LoadInt64(&minStartCPU); ms >= 0 && int64(processCPU())-ms > int64(90*time.Second) {
				// A candidate of the minimiser made the library hang or crawl: give up minimising.
				// The parent runs the batch again with minimisation switched off.
				fmt.Fprintf(os.Stderr, "cmcheck worker: CPU budget exceeded while minimising a violating input\n")
				os.Exit(4)
			}
			st := atomic.LoadInt64(&caseStartCPU)
			if st < 0 {
				continue
			}
			if int64(processCPU())-st > atomic.LoadInt64(&caseBudget) {
				fmt.Fprintf(os.Stderr, "cmcheck worker: CPU budget exceeded\n")
				buf := make([]byte, 1<<20)
				n := runtime.Stack(buf, true)
				os.Stderr.Write(buf[:n])
				os.Exit(3)
			}
		}
	}()

	directed := []core.Directed(nil)
	if *genName == "directed" {
		directed = allDirected(cf.verifDir, m)
	}

	var ntBuf [8]byte
	var curBuf [8]byte
	startCPU := processCPU()
	for i := uint64(0); i < *count; i++ {
		idx := *from + i
		c := &core.Case{Gen: *genName, Index: idx}
		if *genName == "directed" {
			if idx >= uint64(len(directed)) {
				break
			}
			c.Input, c.Note = directed[idx].Input, "directed: "+directed[idx].Note
			c.Seed = core.Mix(cf.seed, 0xd1, idx)
		} else {
			c.Input, c.Note = gen.Generate(cf.seed, *genName, *profile, idx)
			c.Seed = gen.CaseSeed(cf.seed, *genName, *profile, idx)
		}
		if curFile != nil {
			binary.LittleEndian.PutUint64(curBuf[:], idx)
			curFile.WriteAt(curBuf[:], 0)
		}
		atomic.StoreInt64(&caseBudget, int64(cpuBudget(len(c.Input), *budgetMult)))
		t0 := processCPU()
		atomic.StoreInt64(&caseStartCPU, int64(t0))
		runCase(m, ctx, c)
		atomic.StoreInt64(&caseStartCPU, -1)
		dt := processCPU() - t0
		if ms := dt.Milliseconds(); ms > res.MaxCaseCPUms {
			res.MaxCaseCPUms = ms
			res.MaxCaseInput = c.Note + " " + core.Quote(c.Input)
		}
		res.Cases++
		ctx.Max(fmt.Sprintf("max_cpu_ms_size_le_%s", sizeBucket(len(c.Input))), dt.Milliseconds())

		if s := ctx.Skipped(); s != "" {
			res.Skipped[s]++
		}
		if r := ctx.IsInconclusive(); r != "" {
			res.NInconcl++
			if len(res.Inconclusive) < 20 {
				res.Inconclusive = append(res.Inconclusive, mkRec(cf.property, *profile, c, "inconclusive", r))
			}
		}
		if ctx.IsNonTrivial() {
			res.NonTrivial++
			binary.LittleEndian.PutUint64(ntBuf[:], caseHash(c))
			ntFile.Write(ntBuf[:])
		}
		if ctx.Failed() {
			v := ctx.Violations()[0]
			res.NViolations++
			res.ViolByCode[v.Code]++
			if len(res.Violations) < 400 {
				rec := mkRec(cf.property, *profile, c, v.Code, v.Msg)
				if !*noMin && len(c.Input) > 0 && len(c.Input) <= 8192 && minimisable(m, c) && v.Code != "panic" {
					atomic.StoreInt64(&minStartCPU, int64(processCPU()))
					min, msg := minimise(m, cf.tier, c, v.Code)
					atomic.StoreInt64(&minStartCPU, -1)
					if len(min) < len(c.Input) {
						rec.MinInput = base64.StdEncoding.EncodeToString(min)
						rec.MinMsg = msg
						rec.Quoted = core.Quote(min)
					}
				}
				// attribution to a listed finding: same failure code and the minimised
				// input has the finding's syntactic shape
				if kf := matchKnown(known, cf.property, v.Code, rec.minInput()); kf != nil {
					rec.KnownID = kf.ID
					res.KnownHits[kf.ID]++
					knownRecorded[kf.ID]++
					if knownRecorded[kf.ID] > 5 && c.Gen != "directed" {
						res.NViolations-- // attributed and counted in KnownHits; not kept as a record
						res.ViolByCode[v.Code]--
						goto recorded
					}
				}
				res.Violations = append(res.Violations, rec)
			}
		recorded:
		}
		// samples: first two of the batch, any non-trivial one, the largest
		if len(res.Samples) < 2 || (len(res.Samples) < 4 && ctx.IsNonTrivial()) {
			res.Samples = append(res.Samples, Sample{Gen: *genName, Index: idx, Note: c.Note, Len: len(c.Input), Input: core.Quote(c.Input), NonTrivial: ctx.IsNonTrivial()})
		}
	}
	res.CPUms = (processCPU() - startCPU).Milliseconds()
	res.Counters = ctx.Counters
	res.Maxes = ctx.Maxes
	res.Recorded = ctx.Recorded()

	data, _ := json.Marshal(res)
	tmp := *out + ".tmp"
	if err := os.WriteFile(tmp, data, 0o644); err != nil {
		fmt.Fprintln(os.Stderr, err)
		return 2
	}
	os.Rename(tmp, *out)
	return 0
}

func sizeBucket(n int) string {
	switch {
	case n <= 64:
		return "64"
	case n <= 1024:
		return "1k"
	case n <= 16*1024:
		return "16k"
	case n <= 256*1024:
		return "256k"
	default:
		return "inf"
	}
}

func caseHash(c *core.Case) uint64 {
	if len(c.Input) == 0 {
		return core.Mix(core.HashString(c.Gen), c.Index, c.Seed)
	}
	return core.HashBytes(c.Input)
}

func mkRec(prop, profile string, c *core.Case, code, msg string) ViolationRec {
	if len(msg) > 4000 {
		msg = msg[:4000] + "...(truncated)"
	}
	return ViolationRec{Property: prop, Gen: c.Gen, Profile: profile, Index: c.Index, CaseSeed: c.Seed, Note: c.Note,
		Code: code, Msg: msg, Input: base64.StdEncoding.EncodeToString(c.Input), Quoted: core.Quote(c.Input)}
}

// runCase executes the monitor on one case with panic capture. A panic that
// escapes the library is a C04 violation; for every other property it makes
// the case inconclusive (C04's workload is a superset and reports it).
func runCase(m core.Monitor, ctx *core.Ctx, c *core.Case) {
	ctx.Begin()
	defer func() {
		if r := recover(); r != nil {
			stack := string(debug.Stack())
			frame := firstRepoFrame(stack)
			if m.ID() == "C04" {
				ctx.Violation("panic", "panic: %v at %s", r, frame)
			} else {
				ctx.Inc("panics_in_case")
				ctx.Inconclusive(fmt.Sprintf("panic: %v at %s", r, frame))
			}
			if ctx.Verbose {
				ctx.Log("%s", stack)
			}
		}
	}()
	m.Check(ctx, c)
}

func firstRepoFrame(stack string) string {
	lines := strings.Split(stack, "\n")
	for i, l := range lines {
		if strings.HasPrefix(l, "zombiezen.com/go/commonmark") && i+1 < len(lines) {
			return strings.TrimSpace(l) + " " + strings.TrimSpace(lines[i+1])
		}
	}
	for i, l := range lines {
		if strings.HasPrefix(l, "verif/") && i+1 < len(lines) {
			return "(harness) " + strings.TrimSpace(l) + " " + strings.TrimSpace(lines[i+1])
		}
	}
	return "?"
}

type noMinimiser interface{ NoMinimise() bool }

type caseMinimiser interface{ MinimiseCase(c *core.Case) bool }

func noMinimise(m core.Monitor) bool {
	if nm, ok := m.(noMinimiser); ok {
		return nm.NoMinimise()
	}
	return false
}

// minimisable reports whether byte-level shrinking keeps the case inside the
// oracle's domain (it does not for inputs whose meaning depends on a generator's shape).
func minimisable(m core.Monitor, c *core.Case) bool {
	if noMinimise(m) {
		return false
	}
	if cm, ok := m.(caseMinimiser); ok {
		return cm.MinimiseCase(c)
	}
	return true
}

// minimise is byte-level delta debugging with the same oracle: a candidate
// is kept if the monitor still reports a violation with the same code.
func minimise(m core.Monitor, tier string, c *core.Case, code string) ([]byte, string) {
	best := append([]byte(nil), c.Input...)
	bestMsg := ""
	calls := 0
	const maxCalls = 1500
	scratch := core.NewCtx(tier)
	try := func(cand []byte) bool {
		if calls >= maxCalls {
			return false
		}
		calls++
		cc := &core.Case{Gen: c.Gen, Index: c.Index, Seed: c.Seed, Input: cand, Note: c.Note}
		runCase(m, scratch, cc)
		if scratch.Failed() && scratch.FirstCode() == code {
			bestMsg = scratch.Violations()[0].Msg
			return true
		}
		return false
	}
	chunk := len(best) / 2
	for chunk >= 1 && calls < maxCalls {
		removed := false
		for start := 0; start < len(best) && calls < maxCalls; {
			end := start + chunk
			if end > len(best) {
				end = len(best)
			}
			cand := append(append([]byte(nil), best[:start]...), best[end:]...)
			if try(cand) {
				best = cand
				removed = true
			} else {
				start += chunk
			}
		}
		if !removed || chunk > len(best) {
			chunk /= 2
		}
	}
	// simplify bytes: letters to 'a' keeps shape but is more readable
	return best, bestMsg
}

// allDirected returns the monitor's directed cases plus the witnesses of the
// known/fixed findings recorded for the property.
func allDirected(verifDir string, m core.Monitor) []core.Directed {
	d := append([]core.Directed(nil), m.Directed()...)
	for _, kf := range loadKnown(verifDir) {
		if kf.hasProperty(m.ID()) && kf.Witness != nil {
			in := kf.Witness
			if m.ID() == "C06" {
				if kf.Expect == nil {
					continue // C06 judges a witness only against its expected HTML
				}
				in = []byte(string(kf.Witness) + "\x00EXPECT\x00" + string(kf.Expect))
			}
			d = append(d, core.Directed{Input: in, Note: kf.Status + " finding " + kf.ID + ": " + kf.What})
		}
	}
	return d
}

var _ = mon.Triggers

// matchKnown returns the listed (status "known") finding that a violation of
// the given code on the given minimised input is attributed to, or nil.
func matchKnown(known []KnownFinding, property, code string, minInput []byte) *KnownFinding {
	for i := range known {
		kf := &known[i]
		if kf.Status != "known" || !kf.hasProperty(property) || kf.Code != code {
			continue
		}
		if trig := mon.Triggers[kf.Trigger]; trig != nil && trig(minInput) {
			return kf
		}
	}
	return nil
}
