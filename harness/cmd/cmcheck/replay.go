package main

import (
	"encoding/json"
	"flag"
	"fmt"
	"os"

	"verif/core"
	"verif/gen"
)

// ReplayFile is what a VIOLATION line points at.
type ReplayFile struct {
	ViolationRec
	Tier string `json:"tier"`
	Seed uint64 `json:"seed"`
}

// regenerate rebuilds a case from its four integers.
func regenerate(cf commonFlags, m core.Monitor, genName, profile string, index uint64) *core.Case {
	c := &core.Case{Gen: genName, Index: index}
	if genName == "directed" {
		d := allDirected(cf.verifDir, m)
		if index >= uint64(len(d)) {
			return nil
		}
		c.Input, c.Note = d[index].Input, "directed: "+d[index].Note
		c.Seed = core.Mix(cf.seed, 0xd1, index)
		return c
	}
	c.Input, c.Note = gen.Generate(cf.seed, genName, profile, index)
	c.Seed = gen.CaseSeed(cf.seed, genName, profile, index)
	return c
}

func cmdReplay(args []string) int {
	fs := flag.NewFlagSet("replay", flag.ExitOnError)
	file := fs.String("file", "", "replay file")
	verifDir := fs.String("verif-dir", "/verif", "")
	original := fs.Bool("original", false, "replay the original input instead of the minimised one")
	fs.Parse(args)
	data, err := os.ReadFile(*file)
	if err != nil {
		fmt.Fprintln(os.Stderr, err)
		return 2
	}
	var rf ReplayFile
	if err := json.Unmarshal(data, &rf); err != nil {
		fmt.Fprintln(os.Stderr, err)
		return 2
	}
	m := core.Lookup(rf.Property)
	if m == nil {
		fmt.Fprintln(os.Stderr, "unknown property", rf.Property)
		return 2
	}
	_ = verifDir
	if rf.Gen == "race-detector" {
		fmt.Println("data race report (re-run the check to reproduce; races are schedule dependent):")
		fmt.Println(rf.Msg)
		return 1
	}
	input := rf.minInput()
	if *original {
		input = rf.input()
	}
	c := &core.Case{Gen: rf.Gen, Index: rf.Index, Seed: rf.CaseSeed, Input: input, Note: rf.Note}
	ctx := core.NewCtx(rf.Tier)
	ctx.Verbose = true
	ctx.Log = func(f string, a ...any) { fmt.Printf(f+"\n", a...) }
	fmt.Printf("replaying %s case gen=%s index=%d seed=%d\ninput: %s\n", rf.Property, rf.Gen, rf.Index, rf.CaseSeed, core.Quote(input))
	runCase(m, ctx, c)
	if ctx.Failed() {
		for _, v := range ctx.Violations() {
			fmt.Printf("violation [%s]: %s\n", v.Code, v.Msg)
		}
		fmt.Printf("VIOLATION property=%s replay=%s\n", rf.Property, *file)
		return 1
	}
	if r := ctx.IsInconclusive(); r != "" {
		fmt.Println("inconclusive:", r)
		return 2
	}
	fmt.Println("held: the case no longer violates", rf.Property)
	return 0
}
