package mon

import (
	"bytes"

	"verif/core"
	"verif/gen"
	"verif/refimpl/render"

	cm "zombiezen.com/go/commonmark"
)

// C10 — HTML output is the canonical serialization of the tree in every configuration.
type c10 struct{}

func init() {
	core.Register(c10{})
	assumptions["C10"] = []string{
		"the oracle is refimpl/render: an independent recursive renderer over the public node API producing fixed / raw / alternative segments (DESIGN C10 lists the conventions: escape spellings, percent-encoder, alt text, end tags of filtered elements, first word of the info string)",
		"which '<' of raw HTML a predicate escapes is C17's business: a raw segment matches with any subset of its '<' written &lt; (none when FilterTag is nil)",
	}
}

func (c10) ID() string { return "C10" }
func (c10) Rule() string {
	return "per parsed tree: the default configuration plus 7 sampled ones (all 42 = 3 soft-break modes x IgnoreRaw x 7 predicates on every 16th case): AppendBlock of every root block must be an instance of the reference segments; rendering twice is identical; fingerprint and Source unchanged; Render == AppendBlock joined by blank lines; RenderHTML == zero-value renderer. Non-trivial: the tree holds a link/image/autolink/code block/raw HTML/list; distinct by input hash"
}

func (c10) Plan(tier string) []core.Segment {
	return []core.Segment{
		{Gen: "spec", Count: gen.CorpusSize(), Exhaustive: true},
		{Gen: "specprefix", Count: gen.PrefixCount(), Exhaustive: true},
		{Gen: "inject", Count: scale(tier, 100_000, 3_000_000)},
		{Gen: "lines", Profile: "default", Count: scale(tier, 100_000, 3_000_000)},
		{Gen: "limits", Profile: "default", Count: scale(tier, 4_000, 100_000), Desc: "documents on numeric thresholds: 999-character labels, 9-digit list numbers, reference digit counts, scheme and domain lengths, line endings on the 8 KiB read window, indentation columns, long runs, deep nesting"},
		{Gen: "defsplit", Profile: "default", Count: scale(tier, 60_000, 2_000_000), Desc: "definition-like paragraphs cut into lines at every place, inside containers with space/tab/partly consumed tab prefixes and hostile bytes right after the prefix"},
		{Gen: "inlinex", Profile: "default", Count: scale(tier, 100_000, 3_000_000), Desc: "well-formed inline trees whose delimiter tokens were deleted, duplicated, moved, swapped or respelled: constructs crossing each other's boundaries"},
		{Gen: "modeldoc", Profile: "full", Count: scale(tier, 40_000, 2_000_000), Desc: "Markdown of model documents: nested containers, structural tabs, laziness, multi-line inline constructs"},
		{Gen: "modeldoc", Profile: "deep", Count: scale(tier, 4000, 200000), Desc: "Markdown of model documents: nested containers, structural tabs, laziness, multi-line inline constructs", Batch: 2000},
		{Gen: "lines", Profile: "hostile", Count: scale(tier, 30_000, 1_000_000)},
		{Gen: "soup", Profile: "inline", Count: scale(tier, 80_000, 2_000_000)},
		{Gen: "soup", Profile: "html", Count: scale(tier, 60_000, 2_000_000)},
		{Gen: "soup", Profile: "inject", Count: scale(tier, 60_000, 2_000_000)},
		{Gen: "htmlmix", Count: scale(tier, 30_000, 1_000_000)},
		{Gen: "specmut", Count: scale(tier, 60_000, 2_000_000)},
	}
}

func (c10) Directed() []core.Directed {
	return []core.Directed{
		d("![\" onerror=\"alert(1)](x)", "P2"), d("![](x)", "P3"), d("![&amp;](x)", "P3: reference in alt"),
		d("[a](%GG) [b](%41%zz%) <http://a/é%GG\"x>", "P4: percent handling"),
		d("![a ![b *c*](d) [e](f) `g` <h@i.j>](k \"l\")", "nested alt text"),
		d("![a <b> c](d)", "raw HTML in alt text"),
		d("``` a b c\ncode\n```\n", "info string with NBSP"),
		d("- a\n- b\n\n1. c\n\n   d\n5. e\n\n7) f\n", "tight, loose, start"),
		d("<DIV>\n*x*\n</DIV>\n\nx <B>y</B> <!-- c --> <?p?> <![CDATA[d]]> <!E f>\n", "raw"),
		d("a  \nb\\\nc\nd\n", "breaks"),
		d("[r]: /u \"t&quot;\"\n\n[r] ![r] [x][r] [r][]\n", "references"),
		d("> q\n\n    code\n\n***\n\n# h *e* **s** `c`\n\ns\n=\n", "blocks"),
		d("\tcode\n\n> \tq\n\n<a\n\tb>\n\n- <a\n\tb> x\n", "Indent nodes incl. inside raw tags"),
		d("&amp; &#65; &#x41; &copy; &#0;\n", "character references in text"),
	}
}

var renderPoisonBlocks []*cm.RootBlock

// renderPoison is a document that drives the renderer's scratch state (lower-casing buffer,
// alt-text mode, tight lists, open containers) away from its initial condition.
func renderPoison() []*cm.RootBlock {
	if renderPoisonBlocks == nil {
		renderPoisonBlocks, _ = cm.Parse([]byte("<DIV>\n<SCRIPT>\n\n![a *b* <XMP>](/u)\n\n- x\n  > y `z\n\n1. <Title>\n"))
	}
	return renderPoisonBlocks
}

func (c10) Check(ctx *core.Ctx, c *core.Case) {
	rnd := core.NewRand(c.Seed)
	blocks, refs, _ := core.ParseCopy(c.Input)
	fp := core.Fingerprint(blocks, refs, core.FPOpts{})
	if ctx.Verbose {
		ctx.Log("%s", core.DumpBlocks(blocks, refs))
	}
	all := allRenderConfigs()
	cfgs := []core.RenderCfg{{}}
	if c.Seed%16 == 0 {
		cfgs = all
		ctx.Inc("cases_with_all_configs")
	} else {
		for i := 0; i < 7; i++ {
			cfgs = append(cfgs, all[rnd.Intn(len(all))])
		}
	}
	for _, cfg := range cfgs {
		r := cfg.Renderer(refs)
		var joined []byte
		for bi, rb := range blocks {
			got := r.AppendBlock(nil, rb)
			segs := render.Block(rb, refs, render.Config{Soft: cfg.Soft, IgnoreRaw: cfg.IgnoreRaw, Filter: cfg.Filter})
			ok, at, want := render.Match(segs, got, cfg.Filter != nil)
			if !ok {
				ctx.Violation("segment_mismatch", "%s: block %d (%s): output departs from the independent reading of the tree at byte %d\n library:   %s\n reference: %s\n expected there: %s", cfg, bi, rb.Kind(), at, core.Quote(got), core.Quote([]byte(render.String(segs))), core.Quote([]byte(want)))
				return
			}
			// something else is rendered in between, through the same renderer value
			for _, pb := range renderPoison() {
				r.AppendBlock(nil, pb)
			}
			if again := r.AppendBlock(nil, rb); !bytes.Equal(again, got) {
				ctx.Violation("nondeterministic", "%s: block %d rendered twice gives different bytes", cfg, bi)
				return
			}
			if bi > 0 {
				joined = append(joined, "\n\n"...)
			}
			joined = append(joined, got...)
			if rb.Kind() == cm.LinkReferenceDefinitionKind && len(got) != 0 {
				ctx.Violation("segment_mismatch", "%s: a reference definition block rendered %s", cfg, core.Quote(got))
				return
			}
		}
		whole, err := core.Render(blocks, refs, cfg)
		if err != nil || !bytes.Equal(whole, joined) {
			ctx.Violation("join", "%s: Render(blocks) differs from AppendBlock of each block joined by blank lines (err %v)\n Render: %s\n joined: %s", cfg, err, core.Quote(whole), core.Quote(joined))
			return
		}
		ctx.Inc("renders_compared")
		ctx.Inc("cfg:" + cfg.String())
		if cfg.FilterID == "" && cfg.Soft == cm.SoftBreakPreserve && !cfg.IgnoreRaw {
			var bb bytes.Buffer
			if err := cm.RenderHTML(&bb, blocks, refs); err != nil || !bytes.Equal(bb.Bytes(), whole) {
				ctx.Violation("default_config", "RenderHTML differs from the zero-value renderer (err %v)", err)
				return
			}
		}
	}
	if core.Fingerprint(blocks, refs, core.FPOpts{}) != fp {
		ctx.Violation("tree_mutated", "rendering changed the tree, Source or the reference map")
		return
	}
	st := core.Stats(blocks)
	for _, k := range []string{"LinkKind", "ImageKind", "AutolinkKind", "FencedCodeBlockKind", "IndentedCodeBlockKind", "HTMLBlockKind", "HTMLTagKind", "ListKind"} {
		if st.Kinds[k] > 0 {
			ctx.NonTrivial()
		}
	}
	core.CountKinds(ctx, "rendered:", blocks)
}
