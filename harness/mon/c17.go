package mon

import (
	"bytes"
	"fmt"
	"sort"
	"strings"

	"verif/core"
	"verif/gen"
	"verif/refimpl/htmltok"

	cm "zombiezen.com/go/commonmark"
)

// C17 — Tag filtering only escapes `<` and leaves no filtered element openable.
type c17 struct{}

func init() {
	core.Register(c17{})
	assumptions["C17"] = []string{
		"the tokenizer oracle is my transcription of the WHATWG tokenizer held in the data state (DESIGN Appendix B): no RCDATA/RAWTEXT switch, CDATA sections are bogus comments",
		"predicates: GFM, reject-all, reject-none and name sets over [a-z0-9] names that contain the nine raw-text elements plus names harvested from the document",
	}
}

func (c17) ID() string { return "C17" }
func (c17) Rule() string {
	return "per parsed tree and predicate P (GFM, all, none, 2 name sets): output with P must equal output without it up to '<' -> '&lt;' (two-pointer match; identical for reject-none), and the data-state tokenizer must see no start tag whose lower-cased name P rejects. Non-trivial: the unfiltered output holds a start tag that P rejects, or a comment/declaration/CDATA/PI token; distinct by input hash"
}

func (c17) Plan(tier string) []core.Segment {
	small := "c17:5"
	if tier == "thorough" {
		small = "c17:6"
	}
	return []core.Segment{
		{Gen: "small", Profile: small, Count: gen.Size("small", small), Exhaustive: true, Desc: "all strings up to the bound over {<,>,!,-,?,/,script,SP,\",a,LF}"},
		{Gen: "spec", Count: gen.CorpusSize(), Exhaustive: true},
		{Gen: "soup", Profile: "html", Count: scale(tier, 750_000, 10_000_000)},
		{Gen: "htmlmix", Count: scale(tier, 450_000, 6_000_000), Desc: "templates placing comments, CDATA, PIs, declarations, stray '<', quoted '>' before raw-text elements, as HTML blocks and inline"},
		{Gen: "lines", Profile: "default", Count: scale(tier, 150_000, 2_000_000)},
		{Gen: "limits", Profile: "default", Count: scale(tier, 4_000, 100_000), Desc: "documents on numeric thresholds: 999-character labels, 9-digit list numbers, reference digit counts, scheme and domain lengths, line endings on the 8 KiB read window, indentation columns, long runs, deep nesting"},
		{Gen: "inlinex", Profile: "default", Count: scale(tier, 50_000, 1_000_000), Desc: "well-formed inline trees whose delimiter tokens were deleted, duplicated, moved, swapped or respelled: constructs crossing each other's boundaries"},
		{Gen: "modeldoc", Profile: "full", Count: scale(tier, 30_000, 1_000_000), Desc: "Markdown of model documents: nested containers, structural tabs, laziness, multi-line inline constructs"},
		{Gen: "modeldoc", Profile: "deep", Count: scale(tier, 3000, 100000), Desc: "Markdown of model documents: nested containers, structural tabs, laziness, multi-line inline constructs", Batch: 2000},
		{Gen: "soup", Profile: "default", Count: scale(tier, 150_000, 2_000_000)},
		{Gen: "specmut", Count: scale(tier, 150_000, 2_000_000)},
	}
}

func (c17) Directed() []core.Directed {
	return []core.Directed{
		d("<!--> <script>\n", "P16: abruptly closed comment, HTML block"),
		d("a <!--> b <script>\n", "P16 inline"),
		d("<!---> <script>\n", "P16: <!--->"),
		d("<!-- a --!> <script>\n", "--!> ends a comment"),
		d("<![CDATA[ > <script> ]]>\n", "P16: CDATA is a bogus comment in HTML content"),
		d("<3 <script>\n", "P22: '<' + non-letter is text"),
		d("<?><<title>\n", "P22"),
		d("x <a title=\">\"><script>\n", "quoted > in attribute"),
		d("<SCRIPT>alert(1)</SCRIPT>\n", "upper case"),
		d("<div>\n<script\n>\n</div>\n", "tag split over lines in an HTML block"),
		d("x <script\ny> z\n", "inline tag split over lines"),
		d("<script", "tag at EOF"),
		d("<pre>\n<style>\n</pre>\n", "raw-text element inside pre block"),
		d("</ <script>\n\n</3 <title>\n", "bogus end tags"),
		d("<!x <script>> <script>\n", "declaration"),
	}
}

func init() {
	pre := []string{"<!-->", "<!--->", "<!-- x --!>", "<!-- x -->", "<!--", "<![CDATA[ >", "<![CDATA[x]]>", "<?x ?>", "<?>", "<?", "<!x>", "<!X y", "<3", "< ", "<<", "<", "</ ", "</3", "</>", "</a>", "<a title=\">\">", "<a title='>'", "<a b=\"", "<a\n", "<b/", "<b/>", "x", "&lt;", "\\<", "`<`", "<!", "<!-", "<!->", "--!>", "-->", "]]>", "?>"}
	targets := []string{"<script>", "<SCRIPT>", "<ScRiPt x=\"y\">", "<script\n>", "<script", "<style>", "<title>", "<textarea>", "<xmp>", "<iframe src=x>", "<noembed>", "<noframes>", "<plaintext>", "<div>", "<b>", "<script/>", "<script/x>", "<script\tx>", "</script>", "<scriptx>", "<script-x>", "<pre>"}
	wrappers := []string{"%s\n", "x %s\n", "<div>\n%s\n</div>\n", "- %s\n", "> %s\n", "%s", "<pre>\n%s\n</pre>\n", "<p\n%s\n", "a\n%s\n", "# %s\n", "*%s*\n", "[%s](u)\n", "<table>\n\n%s\n"}
	gen.Register("htmlmix", func(r *core.Rand, index uint64, profile string) ([]byte, string) {
		var sb strings.Builder
		n := r.Range(1, 4)
		for i := 0; i < n; i++ {
			sb.WriteString(pre[r.Intn(len(pre))])
			sb.WriteString([]string{"", " ", "\n", "  ", "x"}[r.Intn(5)])
		}
		sb.WriteString(targets[r.Intn(len(targets))])
		if r.Bool() {
			sb.WriteString([]string{" ", "\n", "x", ""}[r.Intn(4)])
			sb.WriteString(pre[r.Intn(len(pre))])
			sb.WriteString(targets[r.Intn(len(targets))])
		}
		return []byte(fmt.Sprintf(wrappers[r.Intn(len(wrappers))], sb.String())), "htmlmix"
	})
}

// ltOnlyDiff reports whether filtered equals plain with some '<' written "&lt;".
func ltOnlyDiff(plain, filtered []byte) (bool, int) {
	i, j := 0, 0
	for i < len(plain) && j < len(filtered) {
		if plain[i] == filtered[j] {
			i++
			j++
			continue
		}
		if plain[i] == '<' && bytes.HasPrefix(filtered[j:], []byte("&lt;")) {
			i++
			j += 4
			continue
		}
		return false, i
	}
	return i == len(plain) && j == len(filtered), i
}

func harvestNames(tokens []htmltok.Token, rnd *core.Rand) []string {
	seen := map[string]bool{}
	var names []string
	for _, t := range tokens {
		if t.Kind == htmltok.StartTag && !seen[t.Name] && simpleName(t.Name) {
			seen[t.Name] = true
			names = append(names, t.Name)
		}
	}
	sort.Strings(names)
	var out []string
	for _, n := range names {
		if rnd.Bool() {
			out = append(out, n)
		}
	}
	return out
}

func simpleName(s string) bool {
	if s == "" {
		return false
	}
	for i := 0; i < len(s); i++ {
		c := s[i]
		if !(c >= 'a' && c <= 'z' || c >= '0' && c <= '9') {
			return false
		}
	}
	return true
}

func (c17) Check(ctx *core.Ctx, c *core.Case) {
	rnd := core.NewRand(c.Seed)
	blocks, refs, _ := core.ParseCopy(c.Input)
	soft := []cm.SoftBreakBehavior{cm.SoftBreakPreserve, cm.SoftBreakSpace, cm.SoftBreakHarden}[rnd.Intn(3)]
	plain, _ := core.Render(blocks, refs, core.RenderCfg{Soft: soft})
	ptoks := htmltok.Tokenize(string(plain))
	special := false
	for _, t := range ptoks {
		if t.Kind == htmltok.Comment || t.Kind == htmltok.Doctype {
			special = true
		}
	}
	if ctx.Verbose {
		ctx.Log("%s\nplain: %s", core.DumpBlocks(blocks, refs), core.Quote(plain))
	}

	type pred struct {
		id string
		f  func([]byte) bool
	}
	h := harvestNames(ptoks, rnd)
	preds := []pred{
		{"gfm", cm.FilterTagGFM},
		{"all", filterAll},
		{"none", filterNone},
		{"set:rawtext+harvested", nameSet(append(append([]string{}, rawTextElements...), h...)...)},
		{"set:rawtext+pre,div,b,a", nameSet(append([]string{"pre", "div", "b", "a", "p", "em"}, rawTextElements...)...)},
	}
	for _, p := range preds {
		var called []string
		f := func(tag []byte) bool {
			if len(called) < 64 {
				called = append(called, string(tag))
			}
			return p.f(tag)
		}
		filtered, _ := core.Render(blocks, refs, core.RenderCfg{Soft: soft, Filter: f, FilterID: p.id})
		ctx.Inc("renders:" + p.id)
		ok, at := ltOnlyDiff(plain, filtered)
		if !ok {
			ctx.Violation("not_lt_only", "predicate %s: filtered output is not the unfiltered output with some '<' escaped (first difference near byte %d)\n plain:    %s\n filtered: %s", p.id, at, core.Quote(plain), core.Quote(filtered))
			return
		}
		if p.id == "none" && !bytes.Equal(plain, filtered) {
			ctx.Violation("identity", "a predicate that rejects nothing changed the output\n plain:    %s\n filtered: %s", core.Quote(plain), core.Quote(filtered))
			return
		}
		for _, t := range htmltok.Tokenize(string(filtered)) {
			if t.Kind == htmltok.StartTag && p.f([]byte(t.Name)) {
				ctx.Violation("rejected_start_tag", "predicate %s rejects %q but a tokenizer reading the filtered output sees that start tag at byte %d\n filtered: %s", p.id, t.Name, t.Start, core.Quote(filtered))
				return
			}
		}
		for _, name := range called {
			if name != strings.ToLower(name) {
				ctx.Record("predicate_called_with_upper_case", "%q in %s", name, core.Quote(c.Input))
			}
		}
		rejectedInPlain := false
		for _, t := range ptoks {
			if t.Kind == htmltok.StartTag && p.f([]byte(t.Name)) {
				rejectedInPlain = true
				ctx.Inc("rejected_start_tags_in_unfiltered_output")
			}
		}
		if rejectedInPlain || special {
			ctx.NonTrivial()
		}
	}
	if special {
		ctx.Inc("docs_with_comment_or_doctype_tokens")
	}
}
