package mon

import (
	"fmt"
	"path/filepath"
	"regexp"
	"strconv"
	"strings"
	"unicode/utf8"

	"verif/core"
	"verif/gen"
	"verif/refimpl/label"

	cm "zombiezen.com/go/commonmark"
)

// C12 — References resolve by normalized label; the first definition wins.
type c12 struct{}

func init() {
	core.Register(c12{})
	assumptions["C12"] = []string{
		"matching oracle: my own normaliser (strip/collapse SP, TAB, LF, CR; full case folding from a fixture generated from python3 str.casefold, Unicode 14.0); labels holding a rune that python-14.0 and golang.org/x/text (Unicode 13) fold differently are outside the oracle's domain and skipped",
		"directed documents give every definition a unique destination/title and every use its own paragraph introduced by a unique word, so the oracle reads only (resolved?, href, title) per use from the rendering of that paragraph",
		"closure part on all generators: reference nodes name keys of the map; keys are in normal form; the map equals Extract over the root blocks in order and an independent tree-walk extraction (first definition wins) whose keys come from my normaliser",
	}
}

func (c12) ID() string { return "C12" }
func (c12) Rule() string {
	return "c12doc cases: 1-4 competing definitions (label variants and non-matching neighbours; before/after the uses; top level, quote, list item) and one use per link form; each use must resolve exactly when the oracle says and to the FIRST matching definition. All cases: closure of the reference map. Non-trivial: >= 2 definitions with equal normal form, or a neighbour that must not match (c12doc); >= 1 definition and >= 1 reference node (closure); distinct by input hash"
}

func (c12) Plan(tier string) []core.Segment {
	return []core.Segment{
		{Gen: "c12doc", Count: scale(tier, 900_000, 15_000_000), Desc: "directed matching/precedence documents"},
		{Gen: "spec", Count: gen.CorpusSize(), Exhaustive: true},
		{Gen: "specprefix", Count: gen.PrefixCount(), Exhaustive: true},
		{Gen: "lines", Profile: "default", Count: scale(tier, 500_000, 8_000_000)},
		{Gen: "limits", Profile: "default", Count: scale(tier, 4_000, 100_000), Desc: "documents on numeric thresholds: 999-character labels, 9-digit list numbers, reference digit counts, scheme and domain lengths, line endings on the 8 KiB read window, indentation columns, long runs, deep nesting"},
		{Gen: "defsplit", Profile: "default", Count: scale(tier, 100_000, 4_000_000), Desc: "definition-like paragraphs cut into lines at every place, inside containers with space/tab/partly consumed tab prefixes and hostile bytes right after the prefix"},
		{Gen: "inlinex", Profile: "default", Count: scale(tier, 100_000, 3_000_000), Desc: "well-formed inline trees whose delimiter tokens were deleted, duplicated, moved, swapped or respelled: constructs crossing each other's boundaries"},
		{Gen: "lines", Profile: "hostile", Count: scale(tier, 50_000, 2_000_000)},
		{Gen: "soup", Profile: "inline", Count: scale(tier, 400_000, 6_000_000)},
		{Gen: "soup", Profile: "default", Count: scale(tier, 100_000, 4_000_000)},
		{Gen: "specmut", Count: scale(tier, 100_000, 4_000_000)},
	}
}

func (c12) Directed() []core.Directed {
	return []core.Directed{
		d("[ foo]\n\n[foo]: /u\n", "P15: NBSP is not stripped from a label"),
		d("[foo]: /first\n[FOO]: /second\n\n[Foo]\n", "first definition wins"),
		d("[Foo]\n\n> [foo]: /inquote\n\n- [FOO]: /initem\n", "definitions inside containers, after the use"),
		d("[ẞ]\n\n[SS]: /u\n", "multi-character fold"),
		d("[a\n  b]\n\n[A B]: /u\n", "whitespace collapse across a line ending"),
		d("[\x00l\x00]: /u\n\n[\x00l\x00]\n", "F08: two NULs in a label"),
	}
}

// symbol classes: members of one class are spellings that may or may not
// match each other; the oracle decides.
var c12Classes = [][]string{
	{"a", "A"}, {"b", "B", "b"}, {"z9", "Z9"},
	{"ß", "ss", "SS", "ẞ", "Ss", "s"},
	{"σ", "Σ", "ς"},
	{"k", "K", "K"},
	{"i", "I", "İ", "ı", "i̇"},
	{"fi", "ﬁ", "FI", "Fi"},
	{"é", "É", "e", "é"},
	{"ǅ", "ǆ", "Ǆ"},
	{"\\]", "\\]"}, {"\\[", "\\["}, {"*", "*"}, {"!", "!"}, {"x", "X"},
	// a literal backslash in front of white space (also as the last thing in the label),
	// an escaped backslash, an escaped punctuation character
	{"\\ ", "\\\t", "\\\n", "\\ "}, {"\\\\", "\\\\"}, {"\\!", "\\!", "!"},
}
var c12WS = []string{" ", " ", "\t", "\n", "  ", " \n ", "\t \t", " ", " ", ""}

type c12Spec struct {
	classes []int // index into c12Classes, or -1 for a whitespace slot
	// pad > 0: every label also holds a run of pad characters (one of padUnits, chosen per
	// label), which puts the label's length around the limit of 999 characters
	pad int
}

// padUnits fold to each other within a pair; the two-byte and three-byte units make the
// byte length differ from the character count.
var padUnits = [][]string{{"q", "Q"}, {"é", "É"}, {"ж", "Ж"}, {"ａ", "Ａ"}}

// labelTooLong: "a link label can have at most 999 characters inside the square brackets".
// Leading spaces and tabs of a continuation line are not part of the paragraph's content,
// and a line ending is one character.
func labelTooLong(l string) bool { return labelChars(l) > 999 }

var reContIndent = regexp.MustCompile(`\n[ \t]+`)

func labelChars(l string) int {
	return utf8.RuneCountInString(reContIndent.ReplaceAllString(l, "\n"))
}

func c12Label(r *core.Rand, spec c12Spec, exact bool) string {
	var sb strings.Builder
	if !exact && r.Intn(4) == 0 {
		sb.WriteString([]string{" ", "\t", "\n", "  ", " "}[r.Intn(5)]) // leading whitespace (NBSP must not be stripped)
	}
	for _, ci := range spec.classes {
		if ci < 0 {
			if exact {
				sb.WriteString(" ")
			} else {
				sb.WriteString(c12WS[r.Intn(len(c12WS))])
			}
			continue
		}
		cl := c12Classes[ci]
		if exact {
			sb.WriteString(cl[0])
		} else {
			sb.WriteString(cl[r.Intn(len(cl))])
		}
	}
	if spec.pad > 0 {
		u := padUnits[spec.pad%len(padUnits)]
		sb.WriteString(strings.Repeat(u[r.Intn(2)], spec.pad))
	}
	if !exact && r.Intn(4) == 0 {
		sb.WriteString([]string{" ", "\t", "\n", " "}[r.Intn(4)])
	}
	return sb.String()
}

// validLabel: at least one non-whitespace character, no blank line inside.
func validLabel(l string) bool {
	if strings.Trim(l, " \t\n") == "" || len(l) > 4000 {
		return false
	}
	lines := strings.Split(l, "\n")
	for i := 1; i < len(lines); i++ {
		t := strings.TrimLeft(lines[i], " \t")
		if i < len(lines)-1 && t == "" {
			return false // blank line
		}
		if strings.HasPrefix(t, "*") {
			return false // would start a bullet list item and end the paragraph
		}
	}
	return true
}

// labelClosesWhereWritten reports whether "[" + l + "]" is a label whose content is l:
// no unescaped bracket inside, and the closing bracket is not escaped by a trailing backslash.
func labelClosesWhereWritten(l string) bool {
	for i := 0; i < len(l); i++ {
		switch l[i] {
		case '[', ']':
			return false
		case '\\':
			if i+1 == len(l) {
				return false // would escape the closing bracket
			}
			if strings.IndexByte("!\"#$%&'()*+,-./:;<=>?@[\\]^_`{|}~", l[i+1]) >= 0 {
				i++
			}
		}
	}
	return true
}

func prefixLines(s, first, rest string) string {
	lines := strings.Split(s, "\n")
	for i := range lines {
		if i == 0 {
			lines[i] = first + lines[i]
		} else {
			lines[i] = rest + lines[i]
		}
	}
	return strings.Join(lines, "\n")
}

func init() {
	gen.Register("c12doc", func(r *core.Rand, index uint64, profile string) ([]byte, string) {
		for {
			var spec c12Spec
			n := r.Range(1, 4)
			for i := 0; i < n; i++ {
				if i > 0 && r.Intn(3) == 0 {
					spec.classes = append(spec.classes, -1)
				}
				spec.classes = append(spec.classes, r.Intn(len(c12Classes)))
			}
			if r.Intn(25) == 0 {
				spec.pad = r.Range(986, 1001)
			}
			nDefs := r.Range(1, 4)
			var defs, uses []string
			ok := true
			for i := 0; i < nDefs; i++ {
				l := c12Label(r, spec, r.Intn(5) == 0)
				if !validLabel(l) {
					ok = false
					break
				}
				def := fmt.Sprintf("[%s]: /d%d 't%d'", l, i, i)
				switch r.Intn(5) {
				case 0:
					def = prefixLines(def, "> ", "> ")
				case 1:
					def = prefixLines(def, "- ", "  ")
				case 2:
					def = "para" + strconv.Itoa(i) + "\n\n" + def
				}
				defs = append(defs, def)
			}
			for u := 0; u < 4 && ok; u++ {
				l := c12Label(r, spec, r.Intn(5) == 0)
				if !validLabel(l) {
					ok = false
					break
				}
				var use string
				switch u {
				case 0:
					use = fmt.Sprintf("use%d [txt%d][%s] end", u, u, l)
				case 1:
					use = fmt.Sprintf("use%d [%s][] end", u, l)
				case 2:
					// what follows the shortcut form is sometimes the start of something that is no
					// link label ("[", "[ ]", "[x"): the reference is a shortcut reference all the same (F46)
					use = fmt.Sprintf("use%d [%s]%s end", u, l, []string{"", "", "", "[", "[ ]", "[x"}[r.Intn(6)])
				default:
					use = fmt.Sprintf("use%d ![%s] end", u, l)
				}
				// a use may sit in a container as well: the continuation lines of a label that
				// spans lines then start behind the container's marker or indentation
				// (seeded change C12-j)
				switch r.Intn(6) {
				case 0:
					use = prefixLines(use, "> ", "> ")
				case 1:
					use = prefixLines(use, "- ", "  ")
				}
				uses = append(uses, use)
			}
			if !ok {
				continue
			}
			// interleave: definitions before/after uses
			var parts []string
			di, ui := 0, 0
			for di < len(defs) || ui < len(uses) {
				if di < len(defs) && (ui >= len(uses) || r.Bool()) {
					parts = append(parts, defs[di])
					di++
				} else {
					parts = append(parts, uses[ui])
					ui++
				}
			}
			return []byte(strings.Join(parts, "\n\n") + "\n"), "c12doc"
		}
	})
}

var (
	reC12Href  = regexp.MustCompile(`(?:href|src)="/d(\d+)"`)
	reC12Title = regexp.MustCompile(`title="t(\d+)"`)
)

func unprefix(s, prefix string) (string, bool) {
	// undo prefixLines for labels inside containers; every continuation line must carry
	// the prefix the generator wrote (a minimised input that dropped one is not judged)
	lines := strings.Split(s, "\n")
	for i := 1; i < len(lines); i++ {
		if !strings.HasPrefix(lines[i], prefix) {
			return "", false
		}
		lines[i] = lines[i][len(prefix):]
	}
	return strings.Join(lines, "\n"), true
}

func (c12) Check(ctx *core.Ctx, c *core.Case) {
	label.Load(filepath.Join(gen.FixturesDir, "casefold.tsv"))
	blocks, refs, _ := core.ParseCopy(c.Input)
	if ctx.Verbose {
		ctx.Log("%s", core.DumpBlocks(blocks, refs))
	}
	checkRefClosure(ctx, blocks, refs)
	if ctx.Failed() || c.Gen != "c12doc" {
		return
	}
	// --- matching relation and precedence
	parts := strings.Split(strings.TrimSuffix(string(c.Input), "\n"), "\n\n")
	type def struct {
		norm string
		id   int
	}
	var defs []def
	type use struct {
		n     int
		label string
	}
	var uses []use
	for _, p := range parts {
		if (strings.HasPrefix(p, "> use") || strings.HasPrefix(p, "- use")) && len(p) > 6 {
			up, ok := unprefix(p[2:], map[byte]string{'>': "> ", '-': "  "}[p[0]])
			if !ok {
				ctx.Skip("not_generator_shape")
				return
			}
			p = up
			ctx.Inc("uses_inside_a_container")
		}
		switch {
		case strings.HasPrefix(p, "use"):
			// the oracle only speaks about documents of the generator's exact shape
			// (minimisation candidates that break the shape are not judged)
			if len(p) < 10 || p[3] < '0' || p[3] > '3' || p[4] != ' ' || !strings.HasSuffix(p, " end") {
				ctx.Skip("not_generator_shape")
				return
			}
			n := int(p[3] - '0')
			body := strings.TrimSuffix(p[5:], " end")
			pre, suf := [][2]string{{"[txt0][", "]"}, {"[", "][]"}, {"[", "]"}, {"![", "]"}}[n][0], [][2]string{{"[txt0][", "]"}, {"[", "][]"}, {"[", "]"}, {"![", "]"}}[n][1]
			if n == 2 {
				for _, junk := range []string{"[ ]", "[x", "["} {
					if strings.HasSuffix(body, "]"+junk) {
						body = strings.TrimSuffix(body, junk)
						ctx.Inc("shortcut_uses_followed_by_a_non_label")
						break
					}
				}
			}
			if !strings.HasPrefix(body, pre) || !strings.HasSuffix(body, suf) || len(body) < len(pre)+len(suf) {
				ctx.Skip("not_generator_shape")
				return
			}
			l := body[len(pre) : len(body)-len(suf)]
			if !validLabel(l) || !labelClosesWhereWritten(l) {
				ctx.Skip("not_generator_shape")
				return
			}
			if !label.InDomain(l) {
				ctx.Skip("label_outside_fold_domain")
				return
			}
			if labelTooLong(l) {
				ctx.Inc("labels_over_999_characters")
			} else if labelChars(l) >= 990 {
				ctx.Inc("labels_of_990_to_999_characters")
			}
			uses = append(uses, use{n, l})
		case strings.HasPrefix(p, "para"):
			if len(p) != 5 || p[4] < '0' || p[4] > '3' {
				ctx.Skip("not_generator_shape") // a minimised input that glued something to the filler paragraph
				return
			}
		default:
			raw := p
			if strings.HasPrefix(p, "> ") || strings.HasPrefix(p, "- ") {
				var ok bool
				if raw, ok = unprefix(p[2:], map[byte]string{'>': "> ", '-': "  "}[p[0]]); !ok {
					ctx.Skip("not_generator_shape")
					return
				}
			}
			i := strings.LastIndex(raw, "]: /d")
			if !strings.HasPrefix(raw, "[") || i < 0 {
				ctx.Skip("not_generator_shape")
				return
			}
			if i+6 > len(raw) || raw[i+5] < '0' || raw[i+5] > '3' || raw[i+6:] != " 't"+raw[i+5:i+6]+"'" {
				ctx.Skip("not_generator_shape")
				return
			}
			id, _ := strconv.Atoi(raw[i+5 : i+6])
			raw = raw[1:i]
			if !validLabel(raw) || !labelClosesWhereWritten(raw) {
				ctx.Skip("not_generator_shape")
				return
			}
			if !label.InDomain(raw) {
				ctx.Skip("label_outside_fold_domain")
				return
			}
			if labelTooLong(raw) {
				ctx.Inc("labels_over_999_characters")
				continue // not a label, so not a definition
			} else if labelChars(raw) >= 990 {
				ctx.Inc("labels_of_990_to_999_characters")
			}
			defs = append(defs, def{label.Normalize(raw), id})
		}
	}
	if len(uses) != 4 || uses[0].n != 0 || uses[1].n != 1 || uses[2].n != 2 || uses[3].n != 3 {
		ctx.Skip("not_generator_shape")
		return
	}
	// rendering of each use paragraph
	rendered := map[int]string{}
	r := &cm.HTMLRenderer{ReferenceMap: refs}
	for _, rb := range blocks {
		core.WalkTree(rb.AsNode(), func(n, _ cm.Node, _, _ int) {
			b := n.Block()
			if b == nil || b.Kind() != cm.ParagraphKind {
				return
			}
			sp := b.Span()
			if !sp.IsValid() || sp.End > len(rb.Source) {
				return
			}
			src := string(rb.Source[sp.Start:sp.End])
			if strings.HasPrefix(src, "use") && len(src) > 3 && src[3] >= '0' && src[3] <= '3' {
				rendered[int(src[3]-'0')] = string(renderAsRoot(r, rb.Source, n))
			}
		})
	}
	nontrivial := false
	seen := map[string]int{}
	for _, d := range defs {
		seen[d.norm]++
		if seen[d.norm] >= 2 {
			nontrivial = true
		}
	}
	for _, u := range uses {
		out, ok := rendered[u.n]
		if !ok {
			ctx.Violation("resolve_mismatch", "the paragraph of use %d is missing from the parse", u.n)
			return
		}
		want := -1
		un := label.Normalize(u.label)
		for _, d := range defs {
			if d.norm == un && !labelTooLong(u.label) {
				want = d.id
				break
			}
		}
		got := -1
		if m := reC12Href.FindStringSubmatch(out); m != nil {
			got, _ = strconv.Atoi(m[1])
		}
		ctx.Inc("uses_checked")
		if (got >= 0) != (want >= 0) {
			ctx.Violation("resolve_mismatch", "use %d label %q (normal form %q): library resolved=%v, oracle says resolved=%v; rendering %s", u.n, u.label, un, got >= 0, want >= 0, out)
			return
		}
		if got != want {
			ctx.Violation("wrong_definition", "use %d label %q resolved to definition %d, the first matching definition in source order is %d; rendering %s", u.n, u.label, got, want, out)
			return
		}
		if got >= 0 {
			if m := reC12Title.FindStringSubmatch(out); m == nil || m[1] != strconv.Itoa(want) {
				ctx.Violation("wrong_definition", "use %d: href comes from definition %d but the title does not; rendering %s", u.n, want, out)
				return
			}
			ctx.Inc("uses_resolved")
		} else {
			for _, d := range defs {
				if d.norm != un && strings.EqualFold(strings.Join(strings.Fields(d.norm), ""), strings.Join(strings.Fields(un), "")) {
					nontrivial = true // a neighbour that must not match
				}
			}
			ctx.Inc("uses_unresolved")
		}
	}
	if nontrivial {
		ctx.NonTrivial()
	}
}

// labelText is the logical text of a LinkLabel node: its Text children, with
// Indent children as spaces.
func labelText(src []byte, lab *cm.Inline) string {
	var sb strings.Builder
	for i := 0; i < lab.ChildCount(); i++ {
		ch := lab.Child(i)
		switch ch.Kind() {
		case cm.TextKind:
			sp := ch.Span()
			sb.Write(src[sp.Start:sp.End])
		default:
			sb.WriteString(ch.Text(src))
		}
	}
	return sb.String()
}

func checkRefClosure(ctx *core.Ctx, blocks []*cm.RootBlock, refs cm.ReferenceMap) {
	// (1) every reference node names a key of the map
	nRefs := 0
	for bi, rb := range blocks {
		core.WalkTree(rb.AsNode(), func(n, _ cm.Node, _, _ int) {
			in := n.Inline()
			if in == nil || (in.Kind() != cm.LinkKind && in.Kind() != cm.ImageKind) {
				return
			}
			if ref := in.LinkReference(); ref != "" {
				nRefs++
				if _, ok := refs[ref]; !ok {
					ctx.Violation("key_missing", "block %d: %s names reference %q, which is not in the reference map; Source=%s", bi, in.Kind(), ref, core.Quote(rb.Source))
				}
			}
		})
	}
	// (2) keys in normal form
	for k := range refs {
		if label.InDomain(k) && !label.IsNormal(k) {
			ctx.Violation("key_not_normal", "reference map key %q is not in normalized form", k)
			return
		}
	}
	// (3) map == Extract over the root blocks in order
	ex := cm.ReferenceMap{}
	for _, rb := range blocks {
		ex.Extract(rb.Source, rb.AsNode())
	}
	if a, b := core.FingerprintRefs(ex), core.FingerprintRefs(refs); a != b {
		ctx.Violation("map_vs_extract", "Parse returned %s, Extract over the root blocks in order gives %s", b, a)
		return
	}
	// (4) independent extraction by tree walk, keys from my normaliser
	mine := map[string]cm.LinkDefinition{}
	domain := true
	nDefs := 0
	for _, rb := range blocks {
		src := rb.Source
		core.WalkTree(rb.AsNode(), func(n, _ cm.Node, _, _ int) {
			b := n.Block()
			if b == nil || b.Kind() != cm.LinkReferenceDefinitionKind || b.ChildCount() < 2 {
				return
			}
			nDefs++
			txt := labelText(src, b.Child(0).Inline())
			if !label.InDomain(txt) {
				domain = false
				return
			}
			key := label.Normalize(txt)
			if _, exists := mine[key]; exists || key == "" {
				return
			}
			def := cm.LinkDefinition{Destination: b.Child(1).Inline().Text(src)}
			if b.ChildCount() > 2 {
				def.TitlePresent = true
				def.Title = b.Child(2).Inline().Text(src)
			}
			mine[key] = def
		})
	}
	if domain {
		if a, b := core.FingerprintRefs(mine), core.FingerprintRefs(refs); a != b {
			ctx.Violation("map_vs_walk", "Parse returned %s, an independent tree-walk extraction with my label normaliser gives %s", b, a)
			return
		}
		ctx.Count("definitions_cross_checked", int64(nDefs))
	} else {
		ctx.Inc("docs_outside_fold_domain")
	}
	ctx.Count("reference_nodes_checked", int64(nRefs))
	if nDefs >= 1 && nRefs >= 1 {
		ctx.NonTrivial()
	}
}
