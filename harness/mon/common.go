// Package mon holds the monitors (oracles), one file per property.
package mon

import (
	"bytes"
	"sort"
	"unicode/utf8"

	"verif/core"
	"verif/gen"
)

// Triggers are the named, pure predicates over input bytes that a known
// finding uses to say which syntactic shape reaches the defect.
var Triggers = map[string]func([]byte) bool{}

var assumptions = map[string][]string{}

// Assumptions lists what a property's oracle trusts.
func Assumptions(id string) []string {
	base := []string{
		"verdicts hold only for the executions observed; generators are seeded and finite",
		"Go runtime, compiler and standard library are trusted",
	}
	return append(base, assumptions[id]...)
}

func scale(tier string, quick, thorough uint64) uint64 {
	if tier == "thorough" {
		return thorough
	}
	return quick
}

// treePlan is the structural workload shared by the tree monitors
// (C02, C03, C05, C13 and the closure part of C12).
func treePlan(tier string, smallProfile string) []core.Segment {
	segs := []core.Segment{
		{Gen: "spec", Count: gen.CorpusSize(), Exhaustive: true, Desc: "spec 0.30 examples + repo fuzz seeds + harvested corpus"},
		{Gen: "specprefix", Count: gen.PrefixCount(), Exhaustive: true, Desc: "every prefix of every corpus document"},
		{Gen: "lines", Profile: "default", Count: scale(tier, 1_000_000, 16_000_000), Desc: "line-structured documents, inline constructs split across lines inside containers"},
		{Gen: "limits", Profile: "default", Count: scale(tier, 6_000, 150_000), Desc: "documents on numeric thresholds: 999-character labels, 9-digit list numbers, reference digit counts, scheme and domain lengths, line endings on the 8 KiB read window, indentation columns, long runs, deep nesting"},
		{Gen: "defsplit", Profile: "default", Count: scale(tier, 300_000, 8_000_000), Desc: "definition-like paragraphs cut into lines at every place, inside containers with space/tab/partly consumed tab prefixes and hostile bytes right after the prefix"},
		{Gen: "inlinex", Profile: "default", Count: scale(tier, 500_000, 12_000_000), Desc: "well-formed inline trees whose delimiter tokens were deleted, duplicated, moved, swapped or respelled: constructs crossing each other's boundaries"},
		{Gen: "modeldoc", Profile: "full", Count: scale(tier, 150_000, 4_000_000), Desc: "Markdown of model documents: nested containers, structural tabs, laziness, multi-line inline constructs"},
		{Gen: "modeldoc", Profile: "deep", Count: scale(tier, 15000, 400000), Desc: "Markdown of model documents: nested containers, structural tabs, laziness, multi-line inline constructs", Batch: 2000},
		{Gen: "lines", Profile: "hostile", Count: scale(tier, 300_000, 4_000_000), Desc: "the same with NUL / invalid UTF-8 / CR / tab bytes overwritten"},
		{Gen: "soup", Profile: "default", Count: scale(tier, 800_000, 12_000_000), Desc: "atom soup"},
		{Gen: "soup", Profile: "inline", Count: scale(tier, 500_000, 6_000_000), Desc: "atom soup, inline-heavy"},
		{Gen: "soup", Profile: "hostile", Count: scale(tier, 150_000, 2_000_000), Desc: "atom soup with NUL, CR, invalid UTF-8"},
		{Gen: "specmut", Count: scale(tier, 500_000, 8_000_000), Desc: "mutated / spliced / container-wrapped corpus documents"},
		{Gen: "patho", Count: gen.PathoCount(), Exhaustive: true, Desc: "pathological templates x sizes up to 16 KiB"},
	}
	if smallProfile != "" {
		segs = append(segs, core.Segment{Gen: "small", Profile: smallProfile, Count: gen.Size("small", smallProfile), Exhaustive: true, Desc: "all strings up to the length bound over the alphabet, shortlex"})
	}
	return segs
}

func isLineEnding(c byte) bool { return c == '\n' || c == '\r' }

// lineIndex holds the start offsets of all line endings (LF, CR, CRLF as
// one) of an input, so that "line of offset" is a binary search.
type lineIndex []int

func newLineIndex(b []byte) lineIndex {
	var idx lineIndex
	for i := 0; i < len(b); i++ {
		switch b[i] {
		case '\n':
			idx = append(idx, i)
		case '\r':
			idx = append(idx, i)
			if i+1 < len(b) && b[i+1] == '\n' {
				i++
			}
		}
	}
	return idx
}

// before counts line endings that begin before pos.
func (idx lineIndex) before(pos int) int {
	return sort.SearchInts(idx, pos)
}

func hasNUL(b []byte) bool { return bytes.IndexByte(b, 0) >= 0 }
func hasCR(b []byte) bool  { return bytes.IndexByte(b, '\r') >= 0 }

func validUTF8(b []byte) bool { return utf8.Valid(b) }

func countLines(b []byte) int { return len(gen.SplitLines(b)) }

func min(a, b int) int {
	if a < b {
		return a
	}
	return b
}

func d(input string, note string) core.Directed {
	return core.Directed{Input: []byte(input), Note: note}
}
