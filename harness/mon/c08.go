package mon

import (
	"errors"
	"fmt"
	"io"

	"verif/core"
	"verif/gen"

	cm "zombiezen.com/go/commonmark"
)

// C08 — Streaming parse equals in-memory parse under any read schedule or reader fault.
type c08 struct{}

func init() {
	core.Register(c08{})
	assumptions["C08"] = []string{
		"reference execution is Parse(b) (Parse(b[:k]) for a fault after k bytes); equality is on the full fingerprint: Source, offsets, StartLine, kinds, spans, accessors, reference map",
		"histories are recorded at the client boundary (my io.Reader); whether the reader is called again after it returned an error is recorded, not judged",
		"scope: inputs whose root blocks stay below the streaming block-size limit (cases that hit 'block too large' are skipped and counted)",
	}
}

func (c08) ID() string { return "C08" }
func (c08) Rule() string {
	return "per input: streaming (NextBlock to the end, Extract, Rewrite) under recorded read schedules must equal Parse on the full fingerprint; terminal error io.EOF (or the injected error, by identity) repeated on 3 further calls with nil blocks. small/* inputs: ALL partitions of the bytes into reads x {EOF alone, EOF with data} and every fault point; other inputs: 8 schedules and a fault sweep (every k for <= 256 B). Non-trivial: >= 2 reads inside one line, or a cut inside CRLF / a multi-byte character / a NUL run, or a fault; distinct by input hash"
}

func (c08) Plan(tier string) []core.Segment {
	small := "c08:5"
	if tier == "thorough" {
		small = "c08:6"
	}
	return []core.Segment{
		{Gen: "small", Profile: small, Count: gen.Size("small", small), Exhaustive: true, Desc: "all strings up to the bound over {a,LF,CR,NUL,é,SP,>,-,`}: every partition into reads, both EOF styles, every fault point", Batch: 4000},
		{Gen: "soup", Profile: "crnul", Count: scale(tier, 60_000, 600_000)},
		{Gen: "soup", Profile: "default", Count: scale(tier, 40_000, 500_000)},
		{Gen: "lines", Profile: "default", Count: scale(tier, 60_000, 600_000)},
		{Gen: "limits", Profile: "default", Count: scale(tier, 2_000, 20_000), Desc: "documents on numeric thresholds: 999-character labels, 9-digit list numbers, reference digit counts, scheme and domain lengths, line endings on the 8 KiB read window, indentation columns, long runs, deep nesting"},
		{Gen: "defsplit", Profile: "default", Count: scale(tier, 30_000, 300_000), Desc: "definition-like paragraphs cut into lines at every place, inside containers with space/tab/partly consumed tab prefixes and hostile bytes right after the prefix"},
		{Gen: "modeldoc", Profile: "full", Count: scale(tier, 20_000, 200_000), Desc: "Markdown of model documents: nested containers, structural tabs, laziness, multi-line inline constructs"},
		{Gen: "modeldoc", Profile: "deep", Count: scale(tier, 2000, 20000), Desc: "Markdown of model documents: nested containers, structural tabs, laziness, multi-line inline constructs", Batch: 2000},
		{Gen: "lines", Profile: "hostile", Count: scale(tier, 40_000, 500_000)},
		{Gen: "spec", Count: gen.CorpusSize(), Exhaustive: true},
		{Gen: "specmut", Count: scale(tier, 40_000, 500_000)},
		{Gen: "partition13", Count: scale(tier, 2_000, 20_000), Desc: "documents of 7-13 bytes, all partitions x 2 EOF styles", Batch: 200},
		{Gen: "patho", Count: gen.PathoCount(), Exhaustive: true},
		{Gen: "bigdoc", Count: scale(tier, 800, 6000), Desc: "8-40 KiB documents of many small blocks with NUL/CR/multi-byte bytes planted at 8 KiB multiples", Batch: 50},
		{Gen: "prose", Count: scale(tier, 10, 100), Desc: "large prose with NUL runs / CR at 8 KiB chunk edges", Batch: 1},
	}
}

func (c08) Directed() []core.Directed {
	return []core.Directed{
		d("hello", "P1"),
		d("a\r\nb\r\n\r\nc\r", "CRLF and trailing CR: look-ahead at buffer end"),
		d("a\x00\x00\x00b\n\n\x00\n", "NUL runs"),
		d("é\né\n\n> é\n", "multi-byte"),
		d("[a]: /u\n[b]: /v\ntext [a] [b]\n\n[c]\n\n[c]: /w\n", "leftover closed blocks and late definitions"),
		d("- a\n\n- b\n\n    code\n\n> q\n", "several root blocks"),
		d("```\nx\n", "unterminated fence"),
		d("", "empty"),
		d("\r", "CR only"),
	}
}

func parseFP(b []byte) string {
	blocks, refs, _ := core.ParseCopy(b)
	return core.Fingerprint(blocks, refs, core.FPOpts{})
}

type c08run struct {
	name string
	sr   *SchedReader
}

func (c08) Check(ctx *core.Ctx, c *core.Case) {
	b := c.Input
	rnd := core.NewRand(c.Seed)
	refFull := parseFP(b)

	judge := func(name string, sr *SchedReader, want string, wantErr error) bool {
		res := StreamParse(sr, sr, b, true)
		ctx.Count("reads_recorded", int64(len(sr.Log)))
		ctx.Inc("runs")
		if blockTooLarge(res.Err) {
			ctx.Skip("block_size_limit")
			return true
		}
		if res.Err != wantErr {
			ctx.Violation("terminal_error", "%s: terminal error %v, want %v (identity)", name, res.Err, wantErr)
			return false
		}
		for i, e := range res.After {
			if e != wantErr {
				ctx.Violation("not_sticky", "%s: call %d after the terminal error returned %v, want %v again", name, i+1, e, wantErr)
				return false
			}
		}
		if res.AfterBlk > 0 {
			ctx.Violation("block_after_error", "%s: a non-nil block was returned together with or after the terminal error", name)
			return false
		}
		got := core.Fingerprint(res.Blocks, res.Refs, core.FPOpts{})
		if got != want {
			code := "block_differs"
			ctx.Violation(code, "%s: streamed result differs from in-memory parse of the delivered bytes\n--- streamed\n%s\n--- in-memory\n%s", name, clip(got), clip(want))
			return false
		}
		for _, h := range res.HookFails {
			ctx.Violation("conservation", "%s: %s", name, h)
			return false
		}
		if sr.ReadsAfterError > 0 {
			ctx.Record("reader_called_after_error", "%s %s", name, core.Quote(b))
		}
		return true
	}

	exhaustive := (c.Gen == "small" || c.Gen == "partition13") && len(b) <= 13
	if exhaustive {
		// all partitions: bit i of mask set = cut after byte i
		nb := len(b)
		masks := uint32(1)
		if nb > 1 {
			masks = 1 << uint(nb-1)
		}
		for mask := uint32(0); mask < masks; mask++ {
			for eofData := 0; eofData < 2; eofData++ {
				m := mask
				sr := &SchedReader{Data: b, FailAt: -1, EOFWithData: eofData == 1, Chunk: func(pos int) int {
					n := 1
					for i := pos; i < nb-1 && m&(1<<uint(i)) == 0; i++ {
						n++
					}
					return n
				}}
				if !judge(fmt.Sprintf("partition %b eofWithData=%v", mask, eofData == 1), sr, refFull, io.EOF) {
					return
				}
			}
		}
		ctx.Count("partitions", int64(masks)*2)
		if c.Gen == "small" {
			// every fault point, under 1-byte and whole reads, error alone and with data
			for k := 0; k <= nb; k++ {
				want := parseFP(b[:k])
				for v := 0; v < 4; v++ {
					e := errors.New("injected reader fault")
					sr := &SchedReader{Data: b, FailAt: k, FailErr: e, FailWithData: v&1 == 1}
					if v&2 != 0 {
						sr.Chunk = func(int) int { return 1 }
					}
					// what the reader would do if it were called again after its error: repeat it,
					// say io.EOF, or go on delivering data. The parser has to latch the error
					// itself (seeded change C08-k: the latch dropped when data came with the error).
					after := int((c.Index + uint64(k) + uint64(v)) % 3)
					sr.EOFAfterFail, sr.ContinueAfterFail = after == 1, after == 2
					ctx.Inc(fmt.Sprintf("fault_reader_afterwards:%s", []string{"repeats-error", "says-EOF", "resumes"}[after]))
					if !judge(fmt.Sprintf("fault at %d withData=%v onebyte=%v afterwards=%d", k, v&1 == 1, v&2 != 0, after), sr, want, e) {
						return
					}
					ctx.Inc("fault_points")
				}
			}
		}
		if nb >= 2 {
			ctx.NonTrivial()
		}
		return
	}

	// sampled schedules
	var sids []int
	if len(b) > 64*1024 {
		sids = []int{0, 10, 11, 8}
	} else {
		sids = []int{0, 1, 2, 3, 8, 9, 4 + rnd.Intn(4), 4 + rnd.Intn(4)}
	}
	for _, sid := range sids {
		name, chunk, zeros, eofData := scheduleChunk(sid, rnd, b)
		sr := &SchedReader{Data: b, Chunk: chunk, Zeros: zeros, EOFWithData: eofData, FailAt: -1}
		if !judge(name, sr, refFull, io.EOF) {
			return
		}
		ctx.Inc("schedule:" + name)
		classifyCuts(ctx, b, sr)
	}
	// faults
	if len(b) <= 64*1024 {
		var ks []int
		if len(b) <= 256 && c.Seed%3 == 0 {
			for k := 0; k <= len(b); k++ {
				ks = append(ks, k)
			}
			ctx.Inc("full_fault_sweeps")
		} else {
			for i := 0; i < 4; i++ {
				ks = append(ks, rnd.Intn(len(b)+1))
			}
		}
		for _, k := range ks {
			want := parseFP(b[:k])
			var e error = errors.New("injected reader fault")
			if rnd.Intn(8) == 0 {
				e = io.ErrUnexpectedEOF
			}
			name, chunk, zeros, _ := scheduleChunk([]int{0, 1, 5, 9}[rnd.Intn(4)], rnd, b)
			sr := &SchedReader{Data: b, Chunk: chunk, Zeros: zeros, FailAt: k, FailErr: e, FailWithData: rnd.Bool()}
			after := rnd.Intn(3)
			sr.EOFAfterFail, sr.ContinueAfterFail = after == 1, after == 2
			ctx.Inc(fmt.Sprintf("fault_reader_afterwards:%s", []string{"repeats-error", "says-EOF", "resumes"}[after]))
			if !judge(fmt.Sprintf("fault at %d (%s) afterwards=%d", k, name, after), sr, want, e) {
				return
			}
			ctx.Inc("fault_points")
		}
	}
	ctx.NonTrivial()
}

func clip(s string) string {
	if len(s) > 1500 {
		return s[:1500] + "..."
	}
	return s
}

// classifyCuts counts, for the evidence, where the recorded reads cut the input.
func classifyCuts(ctx *core.Ctx, b []byte, sr *SchedReader) {
	pos := 0
	for _, ev := range sr.Log {
		pos += ev.N
		if ev.N == 0 && ev.Err == nil {
			ctx.Inc("cut:zero-read")
		}
		if pos <= 0 || pos >= len(b) || ev.N == 0 {
			continue
		}
		switch {
		case b[pos-1] == '\r' && b[pos] == '\n':
			ctx.Inc("cut:inside-CRLF")
		case b[pos]&0xC0 == 0x80:
			ctx.Inc("cut:inside-rune")
		case b[pos-1] == 0 && b[pos] == 0:
			ctx.Inc("cut:inside-NUL-run")
		case b[pos-1] == '\r':
			ctx.Inc("cut:after-CR")
		case b[pos-1] != '\n' && b[pos] != '\n':
			ctx.Inc("cut:inside-line")
		}
	}
}

func init() {
	// documents of 7-13 bytes from the crnul soup, for the all-partitions sweep
	gen.Register("partition13", func(r *core.Rand, index uint64, profile string) ([]byte, string) {
		for {
			s := gen.Soup(r, "crnul", 2, 8)
			if len(s) >= 7 && len(s) <= 13 {
				return s, "partition13"
			}
			if len(s) > 13 {
				return s[:13], "partition13"
			}
		}
	})
}

var _ = cm.Parse
