package mon

import (
	"bytes"
	"fmt"
	"regexp"
	"strings"
	"unicode"

	"verif/core"
	"verif/gen"

	cm "zombiezen.com/go/commonmark"
)

// C15 — Line-level recognizers and byte classifiers match the spec's definitions.
type c15 struct{}

func init() {
	core.Register(c15{})
	assumptions["C15"] = []string{
		"references are Go regexp transcriptions of CommonMark 0.30 sections 4.1-4.5 and 5.2, applied to the line after its <= 3 columns of indentation; Go's unicode tables (the same the library uses) are the trusted base for general categories",
		"the unexported recognizers and classifiers are reached through the verif-tagged exports (export_verif.go); each recognizer is also tied to its call site by parsing the line as a one-line document",
		"URI normalisation: charset and idempotence are judged; agreement with my own encoder is recorded",
	}
}

func (c15) ID() string { return "C15" }
func (c15) Rule() string {
	return "classifier sweep over all 256 byte values (Unicode classifiers judged on code points 0-255, recorded above); per line: every recognizer through the hook vs its regexp, and the one-line document's root block kind / level / info string / item number vs the reference; NormalizeURI charset + idempotence; IsEmailAddress vs the spec regexp. Non-trivial: some recognizer's reference accepts the line (or the URI needs encoding / the e-mail is valid); distinct by input hash"
}

func (c15) Plan(tier string) []core.Segment {
	q := func(a string, nq, nt int) string {
		if tier == "thorough" {
			return fmt.Sprintf("%s:%d", a, nt)
		}
		return fmt.Sprintf("%s:%d", a, nq)
	}
	var segs []core.Segment
	segs = append(segs, core.Segment{Gen: "index", Profile: "c15-classifiers", Count: 256, Exhaustive: true, Desc: "all 256 byte values through every classifier (plus one sweep of all code points, recorded)", Batch: 256})
	for _, p := range []string{q("atx", 8, 10), q("break", 7, 9), q("setext", 8, 10), q("fence", 8, 10), q("marker", 6, 8)} {
		segs = append(segs, core.Segment{Gen: "small", Profile: p, Count: gen.Size("small", p), Exhaustive: true, Desc: "all lines up to the bound over the rule's alphabet", Batch: 100000})
	}
	segs = append(segs,
		core.Segment{Gen: "c15lines", Count: scale(tier, 600_000, 30_000_000), Desc: "random longer lines over the union of the rule alphabets, digit runs 1..12, long fences"},
		core.Segment{Gen: "small", Profile: q("uri", 5, 6), Count: gen.Size("small", q("uri", 5, 6)), Exhaustive: true, Batch: 100000},
		core.Segment{Gen: "small", Profile: q("email", 7, 8), Count: gen.Size("small", q("email", 7, 8)), Exhaustive: true, Batch: 100000},
		core.Segment{Gen: "index", Profile: "c15-uri-runes", Count: 0x110000 / 256, Exhaustive: true, Desc: "every code point (256 per case) through NormalizeURI", Batch: 300},
		core.Segment{Gen: "c15uri", Count: scale(tier, 200_000, 8_000_000), Desc: "random URIs / e-mail addresses incl. 62/63/64-character labels"},
	)
	return segs
}

func (c15) Directed() []core.Directed {
	return []core.Directed{
		d("# f#", "P5"), d("# a\\ #", "P21 (known finding)"), d("# foo \\#", "escaped closing"), d("####### x", "7 hashes"), d("#\tx\t#\t", "tabs"),
		d("***", "break"), d("- - -", "break"), d("_ _  _ \t", "break"), d("--", "not a break"),
		d("===", "underline"), d("-- ", "underline"),
		d("``` go `", "backtick in info"), d("~~~ a`b", "tilde fence"), d("````", "long fence"),
		d("123456789. x", "9 digits"), d("1234567890. x", "10 digits"), d("-x", "not a marker"), d("0) a", "zero"),
	}
}
func (c15) NoMinimise() bool { return false }

func init() {
	alpha := []string{"#", " ", "\t", "a", "\\", "*", "-", "_", "=", "`", "~", "0", "1", "9", "+", ".", ")", "b", "é"}
	gen.Register("c15lines", func(r *core.Rand, index uint64, profile string) ([]byte, string) {
		var sb strings.Builder
		sb.WriteString(strings.Repeat(" ", []int{0, 0, 0, 1, 2, 3, 4}[r.Intn(7)]))
		switch r.Intn(6) {
		case 0: // digit run + delimiter
			for k := r.Range(1, 12); k > 0; k-- {
				sb.WriteByte(byte('0' + r.Intn(10)))
			}
			sb.WriteString([]string{".", ")", ":", ""}[r.Intn(4)])
		case 1:
			sb.WriteString(strings.Repeat([]string{"`", "~"}[r.Intn(2)], r.Range(1, 8)))
		case 2:
			sb.WriteString(strings.Repeat("#", r.Range(1, 8)))
		}
		for k := r.Range(0, 14); k > 0; k-- {
			sb.WriteString(alpha[r.Intn(len(alpha))])
		}
		sb.WriteString([]string{"", "\n", "\r\n", "\r"}[r.Intn(4)])
		return []byte(sb.String()), "c15lines"
	})
	ua := []string{"a", "b", "%", "4", "1", "G", "g", "f", "F", " ", "é", "\xff", "/", "<", "\"", "[", "]", "?", "#", "&", "=", "%25", "%zz", "\\", "^", "{", "日", "\x00", "\x7f"}
	gen.Register("c15uri", func(r *core.Rand, index uint64, profile string) ([]byte, string) {
		var sb strings.Builder
		if r.Bool() { // e-mail-like
			for k := r.Range(0, 6); k > 0; k-- {
				sb.WriteString([]string{"a", "Z", "0", ".", "!", "#", "+", "_", "-", "~", "`"}[r.Intn(11)])
			}
			sb.WriteString([]string{"@", "@", "@", "", "@@"}[r.Intn(5)])
			for l := r.Range(1, 3); l > 0; l-- {
				n := []int{1, 2, 5, 61, 62, 63, 64, 65}[r.Intn(8)]
				for k := 0; k < n; k++ {
					if k > 0 && k < n-1 && r.Intn(6) == 0 {
						sb.WriteByte('-')
					} else {
						sb.WriteByte("ab0Z"[r.Intn(4)])
					}
				}
				if r.Intn(10) == 0 {
					sb.WriteByte('-')
				}
				if l > 1 {
					sb.WriteByte('.')
				}
			}
			if r.Intn(10) == 0 {
				sb.WriteString([]string{".", " ", "_", "é"}[r.Intn(4)])
			}
			return []byte(sb.String()), "c15uri/email"
		}
		for k := r.Range(0, 12); k > 0; k-- {
			sb.WriteString(ua[r.Intn(len(ua))])
		}
		return []byte(sb.String()), "c15uri/uri"
	})
}

var (
	reATX      = regexp.MustCompile(`^(#{1,6})(?:([ \t]+.*)?)$`)
	reATXClose = regexp.MustCompile(`^(.*)[ \t]+#+[ \t]*$`)
	reBreak    = regexp.MustCompile(`^(?:(?:\*[ \t]*){3,}|(?:-[ \t]*){3,}|(?:_[ \t]*){3,})$`)
	reSetext   = regexp.MustCompile(`^(?:(=+)|(-+))[ \t]*$`)
	reFenceBT  = regexp.MustCompile("^(`{3,})([^`]*)$")
	reFenceTL  = regexp.MustCompile(`^(~{3,})(.*)$`)
	reMarker   = regexp.MustCompile(`^(?:([-+*])|([0-9]{1,9})([.)]))(?:[ \t]|$)`)
	reEmail    = regexp.MustCompile("^[a-zA-Z0-9.!#$%&'*+/=?^_`{|}~-]+@[a-zA-Z0-9](?:[a-zA-Z0-9-]{0,61}[a-zA-Z0-9])?(?:\\.[a-zA-Z0-9](?:[a-zA-Z0-9-]{0,61}[a-zA-Z0-9])?)*$")
	reAbsURI   = regexp.MustCompile(`^[A-Za-z][A-Za-z0-9+.\-]{1,31}:[^\x00-\x1f\x7f <>]*$`)
	reURIOut   = regexp.MustCompile(`^(?:[A-Za-z0-9;/?:@&=+$,\-_.!~*'()#\[\]]|%[0-9A-Fa-f]{2})*$`)
)

// stripEOL removes one trailing line ending.
func stripEOL(l []byte) []byte {
	if n := len(l); n > 0 && l[n-1] == '\n' {
		l = l[:n-1]
	}
	if n := len(l); n > 0 && l[n-1] == '\r' {
		l = l[:n-1]
	}
	return l
}

type lineRef struct {
	atxLevel   int
	atxContent string
	isBreak    bool
	setext     int
	fenceChar  byte
	fenceN     int
	fenceInfo  string
	markDelim  byte
	markN      int
	markEnd    int // -1: none
}

// referenceLine applies the regular definitions to a line without indentation
// and without its line ending.
func referenceLine(t []byte) lineRef {
	var r lineRef
	r.markEnd = -1
	if bytes.ContainsAny(t, "\r\n") {
		return r // not a single line; the recognizers are only defined on lines
	}
	if m := reATX.FindSubmatch(t); m != nil {
		r.atxLevel = len(m[1])
		tail := m[2]
		if c := reATXClose.FindSubmatch(tail); c != nil {
			tail = c[1]
		}
		r.atxContent = string(bytes.Trim(tail, " \t"))
	}
	r.isBreak = reBreak.Match(t)
	if m := reSetext.FindSubmatch(t); m != nil {
		if len(m[1]) > 0 {
			r.setext = 1
		} else {
			r.setext = 2
		}
	}
	if m := reFenceBT.FindSubmatch(t); m != nil {
		r.fenceChar, r.fenceN, r.fenceInfo = '`', len(m[1]), string(bytes.Trim(m[2], " \t"))
	} else if m := reFenceTL.FindSubmatch(t); m != nil {
		r.fenceChar, r.fenceN, r.fenceInfo = '~', len(m[1]), string(bytes.Trim(m[2], " \t"))
	}
	if m := reMarker.FindSubmatch(t); m != nil {
		if len(m[1]) > 0 {
			r.markDelim, r.markEnd = m[1][0], 1
		} else {
			n := 0
			for _, ch := range m[2] {
				n = n*10 + int(ch-'0')
			}
			r.markDelim, r.markN, r.markEnd = m[3][0], n, len(m[2])+1
		}
	}
	return r
}

func (c15) Check(ctx *core.Ctx, c *core.Case) {
	switch {
	case c.Gen == "index" && strings.HasSuffix(c.Note, "c15-uri-runes"):
		// every code point of one 256-block, alone and after an ASCII prefix, through
		// NormalizeURI (seeded change C15-h: a rune classified by its low byte, which an
		// alphabet with Latin-1 letters only cannot see)
		for lo := 0; lo < 256; lo++ {
			r := rune(c.Index*256 + uint64(lo))
			if r >= 0xD800 && r <= 0xDFFF || r > 0x10FFFF {
				continue
			}
			for _, u := range []string{string(r), "/a" + string(r) + "b%4" + string(r)} {
				n := cm.NormalizeURI(u)
				ctx.Inc("uri_calls")
				if !reURIOut.MatchString(n) {
					ctx.Violation("uri_charset", "NormalizeURI(%q) = %q contains something other than RFC 3986 reserved/unreserved characters and well-formed percent-escapes (code point U+%04X)", u, n, r)
					return
				}
				if nn := cm.NormalizeURI(n); nn != n {
					ctx.Violation("uri_idempotent", "NormalizeURI is not idempotent: %q -> %q -> %q", u, n, nn)
					return
				}
			}
		}
		ctx.Inc("uri_code_point_blocks")
		ctx.NonTrivial()
		return
	case c.Gen == "index":
		checkClassifiers(ctx, byte(c.Index))
		if c.Index == 0 {
			sweepCodePoints(ctx)
		}
		ctx.NonTrivial()
		return
	case c.Gen == "c15uri" || c.Gen == "small" && (strings.HasPrefix(c.Note, "small/uri") || strings.HasPrefix(c.Note, "small/email")):
		checkURIEmail(ctx, string(c.Input))
		return
	}
	// one line (the generators emit at most one line ending, at the end)
	line := c.Input
	body := stripEOL(line)
	if bytes.ContainsAny(body, "\r\n") {
		// directed or corpus input with several lines: check each line through the hooks only
		for _, l := range gen.SplitLines(line) {
			checkLineHooks(ctx, l)
		}
		return
	}
	checkLineHooks(ctx, line)
	if !ctx.Failed() {
		checkCallSite(ctx, line)
	}
}

func checkLineHooks(ctx *core.Ctx, line []byte) {
	// the recognizers assume the caller stripped leading indentation
	ind := 0
	for ind < len(line) && (line[ind] == ' ' || line[ind] == '\t') {
		ind++
	}
	l := line[ind:]
	t := stripEOL(l)
	ref := referenceLine(t)
	q := core.Quote(l)

	h := cm.VerifParseATXHeading(l)
	ctx.Inc("recognizer_calls")
	if h.Level != ref.atxLevel {
		ctx.Violation("recogniser(atx)", "parseATXHeading(%s): level %d, spec definition gives %d", q, h.Level, ref.atxLevel)
		return
	}
	if h.Level > 0 {
		if h.ContentStart < 0 || h.ContentEnd < h.ContentStart || h.ContentEnd > len(l) {
			ctx.Violation("recogniser(atx)", "parseATXHeading(%s): content span [%d,%d) out of range", q, h.ContentStart, h.ContentEnd)
			return
		}
		if got := string(l[h.ContentStart:h.ContentEnd]); got != ref.atxContent {
			ctx.Violation("recogniser(atx)", "parseATXHeading(%s): content %q, spec definition gives %q", q, got, ref.atxContent)
			return
		}
		ctx.Inc("accepted:atx")
		ctx.NonTrivial()
	}
	if got := cm.VerifParseThematicBreak(l) >= 0; got != ref.isBreak {
		ctx.Violation("recogniser(break)", "parseThematicBreak(%s): %v, spec definition gives %v", q, got, ref.isBreak)
		return
	} else if got {
		ctx.Inc("accepted:break")
		ctx.NonTrivial()
	}
	if got := cm.VerifParseSetextUnderline(l); got != ref.setext {
		ctx.Violation("recogniser(setext)", "parseSetextHeadingUnderline(%s): level %d, spec definition gives %d", q, got, ref.setext)
		return
	} else if got > 0 {
		ctx.Inc("accepted:setext")
		ctx.NonTrivial()
	}
	f := cm.VerifParseCodeFence(l)
	if f.N != ref.fenceN || (f.N > 0 && f.Char != ref.fenceChar) {
		ctx.Violation("recogniser(fence)", "parseCodeFence(%s): char %q n %d, spec definition gives char %q n %d", q, f.Char, f.N, ref.fenceChar, ref.fenceN)
		return
	}
	if f.N > 0 {
		info := ""
		if f.InfoStart >= 0 {
			if f.InfoEnd < f.InfoStart || f.InfoEnd > len(l) {
				ctx.Violation("recogniser(fence)", "parseCodeFence(%s): info span [%d,%d) out of range", q, f.InfoStart, f.InfoEnd)
				return
			}
			info = string(l[f.InfoStart:f.InfoEnd])
		}
		if info != ref.fenceInfo {
			ctx.Violation("recogniser(fence)", "parseCodeFence(%s): info string %q, spec definition gives %q", q, info, ref.fenceInfo)
			return
		}
		ctx.Inc("accepted:fence")
		ctx.NonTrivial()
	}
	m := cm.VerifParseListMarker(l)
	if (m.End >= 0) != (ref.markEnd >= 0) || (m.End >= 0 && (m.Delim != ref.markDelim || m.N != ref.markN || m.End != ref.markEnd)) {
		ctx.Violation("recogniser(marker)", "parseListMarker(%s): delim %q n %d end %d, spec definition gives delim %q n %d end %d", q, m.Delim, m.N, m.End, ref.markDelim, ref.markN, ref.markEnd)
		return
	}
	if m.End >= 0 {
		ctx.Inc("accepted:marker")
		ctx.NonTrivial()
	}
}

// checkCallSite parses the line as a one-line document and compares the root
// block with what the definitions say (precedence: indented code, thematic
// break, ATX heading, fence, list item, paragraph).
func checkCallSite(ctx *core.Ctx, line []byte) {
	if bytes.ContainsAny(line, "<>[]&!|") {
		return // other block rules (HTML blocks, quotes, definitions) are not modelled here
	}
	body := stripEOL(line)
	ind, col := 0, 0
	for ind < len(body) && (body[ind] == ' ' || body[ind] == '\t') {
		if body[ind] == '\t' {
			col += 4 - col%4
		} else {
			col++
		}
		ind++
	}
	blocks, _, _ := core.ParseCopy(line)
	q := core.Quote(line)
	if len(bytes.Trim(body, " \t")) == 0 {
		if len(blocks) != 0 {
			ctx.Violation("callsite(blank)", "blank line %s parses to %d blocks", q, len(blocks))
		}
		return
	}
	if len(blocks) != 1 {
		ctx.Violation("callsite(count)", "one-line document %s parses to %d root blocks", q, len(blocks))
		return
	}
	rb := blocks[0]
	ctx.Inc("callsite_documents")
	if col >= 4 {
		if rb.Kind() != cm.IndentedCodeBlockKind {
			ctx.Violation("callsite(indented)", "%s: root block is %s, want an indented code block", q, rb.Kind())
		}
		return
	}
	ref := referenceLine(body[ind:])
	fail := func(name, format string, a ...any) {
		ctx.Violation("callsite("+name+")", "%s: %s", q, fmt.Sprintf(format, a...))
	}
	switch {
	case ref.isBreak:
		if rb.Kind() != cm.ThematicBreakKind {
			fail("break", "root block is %s, the line is a thematic break by definition", rb.Kind())
		}
	case ref.atxLevel > 0:
		if rb.Kind() != cm.ATXHeadingKind || rb.HeadingLevel() != ref.atxLevel {
			fail("atx", "root block is %s level %d, the line is an ATX heading of level %d by definition", rb.Kind(), rb.HeadingLevel(), ref.atxLevel)
			return
		}
		// heading text: concatenated leaf text must equal the content with backslash escapes resolved, when the content has no other inline syntax
		if !strings.ContainsAny(ref.atxContent, "*_`\\") {
			var sb strings.Builder
			for i := 0; i < rb.ChildCount(); i++ {
				sb.WriteString(rb.Child(i).Inline().Text(rb.Source))
			}
			if sb.String() != ref.atxContent {
				fail("atx", "heading text %q, definition gives %q", sb.String(), ref.atxContent)
			}
		}
	case ref.fenceN > 0:
		if rb.Kind() != cm.FencedCodeBlockKind {
			fail("fence", "root block is %s, the line is a code fence by definition", rb.Kind())
			return
		}
		info := ""
		if is := rb.InfoString(); is != nil {
			sp := is.Span()
			info = string(rb.Source[sp.Start:sp.End])
		}
		if info != ref.fenceInfo {
			fail("fence", "info string %q, definition gives %q", info, ref.fenceInfo)
		}
	case ref.markEnd >= 0:
		if rb.Kind() != cm.ListKind || rb.ChildCount() < 1 {
			fail("marker", "root block is %s, the line starts with a list marker by definition", rb.Kind())
			return
		}
		item := rb.Child(0).Block()
		wantN := -1
		if ref.markDelim == '.' || ref.markDelim == ')' {
			wantN = ref.markN
		}
		if got := item.ListItemNumber(rb.Source); got != wantN {
			fail("marker", "ListItemNumber %d, definition gives %d", got, wantN)
		}
		if item.IsOrderedList() != (wantN >= 0) {
			fail("marker", "IsOrderedList %v for delimiter %q", item.IsOrderedList(), ref.markDelim)
		}
	default:
		if rb.Kind() != cm.ParagraphKind {
			fail("paragraph", "root block is %s, no block start applies by definition", rb.Kind())
		}
	}
}

const asciiPunct = "!\"#$%&'()*+,-./:;<=>?@[\\]^_`{|}~"

func checkClassifiers(ctx *core.Ctx, b byte) {
	type cl struct {
		name string
		got  bool
		want bool
	}
	r := rune(b)
	cls := []cl{
		{"isASCIIPunctuation", cm.VerifIsASCIIPunctuation(b), strings.IndexByte(asciiPunct, b) >= 0},
		{"isASCIIControl", cm.VerifIsASCIIControl(b), b <= 0x1f || b == 0x7f},
		{"isSpaceTabOrLineEnding", cm.VerifIsSpaceTabOrLineEnding(b), b == ' ' || b == '\t' || b == '\n' || b == '\r'},
		{"isHex", cm.VerifIsHex(b), b >= '0' && b <= '9' || b >= 'a' && b <= 'f' || b >= 'A' && b <= 'F'},
		{"isASCIILetter", cm.VerifIsASCIILetter(b), b >= 'a' && b <= 'z' || b >= 'A' && b <= 'Z'},
		{"isASCIIDigit", cm.VerifIsASCIIDigit(b), b >= '0' && b <= '9'},
		{"isUnicodeWhitespace", cm.VerifIsUnicodeWhitespace(r), specUnicodeWhitespace(r)},
		{"isUnicodePunctuation", cm.VerifIsUnicodePunctuation(r), specUnicodePunctuation(r)},
	}
	for _, k := range cls {
		ctx.Inc("classifier_calls")
		if k.got != k.want {
			ctx.Violation("classifier("+k.name+")", "%s(0x%02X) = %v, the spec's definition gives %v", k.name, b, k.got, k.want)
			return
		}
	}
}

func specUnicodeWhitespace(r rune) bool {
	return unicode.Is(unicode.Zs, r) || r == '\t' || r == '\n' || r == '\f' || r == '\r'
}

func specUnicodePunctuation(r rune) bool {
	if r < 0x80 {
		return strings.IndexByte(asciiPunct, byte(r)) >= 0
	}
	return unicode.In(r, unicode.Pc, unicode.Pd, unicode.Pe, unicode.Pf, unicode.Pi, unicode.Po, unicode.Ps)
}

func sweepCodePoints(ctx *core.Ctx) {
	for r := rune(0x100); r <= 0x10FFFF; r++ {
		if cm.VerifIsUnicodeWhitespace(r) != specUnicodeWhitespace(r) {
			ctx.Record("unicode_whitespace_above_255", "U+%04X", r)
		}
		if cm.VerifIsUnicodePunctuation(r) != specUnicodePunctuation(r) {
			ctx.Record("unicode_punctuation_above_255", "U+%04X", r)
		}
	}
	ctx.Count("code_points_swept", 0x110000-0x100)
}

func myNormalizeURI(s string) string {
	var sb strings.Builder
	const keep = ";/?:@&=+$,-_.!~*'()#"
	for i := 0; i < len(s); {
		c := s[i]
		switch {
		case c == '%' && i+2 < len(s)+0 && isHexB(s[i+1]) && isHexB(s[i+2]):
			sb.WriteString(s[i : i+3])
			i += 3
			continue
		case c < 0x80 && (c >= 'a' && c <= 'z' || c >= 'A' && c <= 'Z' || c >= '0' && c <= '9' || strings.IndexByte(keep, c) >= 0):
			sb.WriteByte(c)
		default:
			fmt.Fprintf(&sb, "%%%02X", c)
		}
		i++
	}
	return sb.String()
}

func isHexB(c byte) bool {
	return c >= '0' && c <= '9' || c >= 'a' && c <= 'f' || c >= 'A' && c <= 'F'
}

func checkURIEmail(ctx *core.Ctx, s string) {
	n := cm.NormalizeURI(s)
	ctx.Inc("uri_calls")
	if !reURIOut.MatchString(n) {
		ctx.Violation("uri_charset", "NormalizeURI(%q) = %q contains something other than RFC 3986 reserved/unreserved characters and well-formed percent-escapes", s, n)
		return
	}
	if nn := cm.NormalizeURI(n); nn != n {
		ctx.Violation("uri_idempotent", "NormalizeURI is not idempotent: %q -> %q -> %q", s, n, nn)
		return
	}
	if n != s {
		ctx.NonTrivial()
	}
	if validUTF8([]byte(s)) && myNormalizeURI(s) != n {
		ctx.Record("uri_reference", "NormalizeURI(%q) = %q, my encoder gives %q", s, n, myNormalizeURI(s))
	}
	got, want := cm.IsEmailAddress(s), reEmail.MatchString(s)
	ctx.Inc("email_calls")
	if got != want {
		ctx.Violation("email", "IsEmailAddress(%q) = %v, the spec's regular expression gives %v", s, got, want)
		return
	}
	if got {
		ctx.Inc("accepted:email")
		ctx.NonTrivial()
	}
	// autolink recognizer: recorded only
	al := "<" + s + ">"
	if strings.ContainsAny(s, "<>") {
		return
	}
	wantAuto := want || reAbsURI.MatchString(s)
	if gotAuto := cm.VerifParseAutolink([]byte(al)) == len(al); gotAuto != wantAuto {
		ctx.Record("autolink_reference", "%q: library %v, definition %v", al, gotAuto, wantAuto)
	}
}

// Trigger of known finding KF01: some line of the input is an ATX heading
// whose raw content ends in an unpaired backslash followed by at least one
// space or tab (then an optional closing sequence).
var reKF01 = regexp.MustCompile(`^[ \t]*#{1,6}[ \t]+(?:.*[^\\])?(?:\\\\)*\\[ \t]+(?:#+[ \t]*)?$`)

func init() {
	Triggers["atx_backslash_before_trailing_space"] = func(input []byte) bool {
		for _, l := range gen.SplitLines(input) {
			if reKF01.Match(stripEOL(l)) {
				return true
			}
		}
		return false
	}
}
