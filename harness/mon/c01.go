package mon

import (
	"bytes"
	"fmt"
	"unsafe"

	"verif/core"
	"verif/gen"

	cm "zombiezen.com/go/commonmark"
	"zombiezen.com/go/commonmark/format"
)

// C01 — Root blocks tile the input losslessly; exact offsets and line numbers.
type c01 struct{}

func init() {
	core.Register(c01{})
	assumptions["C01"] = []string{
		"the oracle is computed from the input bytes alone (ranges, gap bytes, NUL replacement, line count)",
		"aliasing is judged only for NUL-free input, as the statement says; canary bytes beyond len(buf) are recorded, not judged",
		"streaming conservation/lineno invariants read BlockParser fields through the verif-tagged VerifState hook",
	}
}

func (c01) ID() string { return "C01" }
func (c01) Rule() string {
	return "cases: exhaustive strings over {a,SP,TAB,LF,CR,NUL,>,-,#,`,[,:}, CR/NUL-heavy soup, spec prefixes and mutations, line-structured documents, large prose crossing 8 KiB chunks; each through Parse and 3 streaming schedules. Non-trivial: >=2 root blocks, or a non-empty gap between/around blocks, or a NUL, or a CR in the input; distinct by input hash"
}

func (c01) Plan(tier string) []core.Segment {
	small := "c01:5"
	if tier == "thorough" {
		small = "c01:7"
	}
	return []core.Segment{
		{Gen: "small", Profile: small, Count: gen.Size("small", small), Exhaustive: true, Desc: "all strings up to the bound, shortlex", Batch: 200000},
		{Gen: "soup", Profile: "crnul", Count: scale(tier, 300_000, 4_000_000)},
		{Gen: "spec", Count: gen.CorpusSize(), Exhaustive: true},
		{Gen: "specprefix", Count: gen.PrefixCount(), Exhaustive: true},
		{Gen: "specmut", Count: scale(tier, 100_000, 1_500_000)},
		{Gen: "lines", Profile: "default", Count: scale(tier, 100_000, 1_500_000)},
		{Gen: "limits", Profile: "default", Count: scale(tier, 4_000, 100_000), Desc: "documents on numeric thresholds: 999-character labels, 9-digit list numbers, reference digit counts, scheme and domain lengths, line endings on the 8 KiB read window, indentation columns, long runs, deep nesting"},
		{Gen: "defsplit", Profile: "default", Count: scale(tier, 100_000, 1_500_000), Desc: "definition-like paragraphs cut into lines at every place, inside containers with space/tab/partly consumed tab prefixes and hostile bytes right after the prefix"},
		{Gen: "modeldoc", Profile: "full", Count: scale(tier, 40_000, 600_000), Desc: "Markdown of model documents: nested containers, structural tabs, laziness, multi-line inline constructs"},
		{Gen: "modeldoc", Profile: "deep", Count: scale(tier, 4000, 60000), Desc: "Markdown of model documents: nested containers, structural tabs, laziness, multi-line inline constructs", Batch: 2000},
		{Gen: "lines", Profile: "hostile", Count: scale(tier, 100_000, 1_500_000)},
		{Gen: "patho", Count: gen.PathoCount(), Exhaustive: true},
		{Gen: "bigdoc", Count: scale(tier, 1500, 12000), Desc: "8-40 KiB documents of many small blocks with NUL/CR/multi-byte bytes planted at 8 KiB multiples", Batch: 100},
		{Gen: "prose", Count: scale(tier, 12, 120), Desc: "prose-like documents 8 KiB .. 2 MiB with NUL runs and CR at chunk edges", Batch: 1},
	}
}

func (c01) Directed() []core.Directed {
	return []core.Directed{
		d("hello", "P1: StartLine of Parse"),
		d("a\x00b\n\nc\n", "offsets after a block holding a NUL"),
		d("# h\x00\x00\n- item\n\n> quote \x00\n\n    code\n", "NUL in several blocks"),
		d("[x\x00]: /url\ntext\n", "leftover-blocks path with NUL"),
		d("alpha\r\nbeta\r\n\r\ngamma\r\n", "CRLF"),
		d("foo\rbar\r\rbaz\n", "lone CR"),
		d("\n\n  \n\ta\n \n\nb", "blank lines around blocks"),
		d("\x00", "single NUL"),
		d("\r", "single CR"),
		d("", "empty"),
	}
}

func (c01) Check(ctx *core.Ctx, c *core.Case) {
	b := c.Input
	rnd := core.NewRand(c.Seed)
	nul := hasNUL(b)

	// (a) in-memory: fresh buffer with canary bytes of spare capacity
	const canary = 64
	full := make([]byte, len(b)+canary)
	copy(full, b)
	for i := len(b); i < len(full); i++ {
		full[i] = 0xAA
	}
	buf := full[:len(b)]
	blocks, refs := cm.Parse(buf)
	checkTiling(ctx, "parse", b, blocks)
	if !nul {
		for i, rb := range blocks {
			if int64(len(rb.Source)) != rb.EndOffset-rb.StartOffset {
				ctx.Violation("len_mismatch", "parse: block %d len(Source)=%d, EndOffset-StartOffset=%d", i, len(rb.Source), rb.EndOffset-rb.StartOffset)
			}
			if len(rb.Source) > 0 && rb.StartOffset >= 0 && int(rb.StartOffset) < len(buf) {
				if unsafe.Pointer(&rb.Source[0]) != unsafe.Pointer(&buf[rb.StartOffset]) {
					ctx.Violation("alias", "parse: block %d Source is not a sub-slice of the caller's buffer at offset %d", i, rb.StartOffset)
				}
			}
		}
		if !bytes.Equal(buf, b) {
			ctx.Violation("buffer_mutated", "Parse modified the caller's buffer: %s -> %s", core.Quote(b), core.Quote(buf))
		}
	} else if !bytes.Equal(buf, b) {
		ctx.Record("buffer_mutated_with_nul", "%s", core.Quote(b))
	}
	// rendering and formatting must not touch the buffer either
	if len(b) <= 64*1024 {
		cfgs := allRenderConfigs()
		cfg := cfgs[rnd.Intn(len(cfgs))]
		core.Render(blocks, refs, cfg)
		var fb bytes.Buffer
		format.Format(&fb, blocks)
		if !nul && !bytes.Equal(buf, b) {
			ctx.Violation("buffer_mutated", "rendering (%s) or Format modified the caller's buffer: %s -> %s", cfg, core.Quote(b), core.Quote(buf))
		}
	}
	for i := len(b); i < len(full); i++ {
		if full[i] != 0xAA {
			ctx.Record("canary_mutated", "%s", core.Quote(b))
			break
		}
	}
	ctx.Count("blocks_checked_parse", int64(len(blocks)))

	// (b) streaming: whole, 1-byte, one random schedule
	scheds := []int{0, 1, 4 + rnd.Intn(8)}
	if len(b) > 64*1024 {
		scheds = []int{0, 10, 11}
	}
	for _, sid := range scheds {
		name, chunk, zeros, eofData := scheduleChunk(sid, rnd, b)
		sr := &SchedReader{Data: b, Chunk: chunk, Zeros: zeros, EOFWithData: eofData, FailAt: -1}
		res := StreamParse(sr, sr, b, false)
		if blockTooLarge(res.Err) {
			ctx.Skip("block_size_limit")
			continue
		}
		checkTiling(ctx, "stream("+name+")", b, res.Blocks)
		for _, h := range res.HookFails {
			code := "conservation"
			if h[0] == 'l' {
				code = "lineno"
			}
			ctx.Violation(code, "stream(%s): %s", name, h)
		}
		ctx.Count("blocks_checked_stream", int64(len(res.Blocks)))
		ctx.Count("reads_recorded", int64(len(sr.Log)))
		ctx.Inc("schedule:" + name)
	}

	if len(blocks) >= 2 || nul || hasCR(b) || hasGap(b, blocks) {
		ctx.NonTrivial()
	}
	if ctx.Verbose {
		ctx.Log("%s", core.DumpBlocks(blocks, refs))
	}
}

func blockTooLarge(err error) bool {
	return err != nil && bytes.Contains([]byte(err.Error()), []byte("block too large"))
}

func hasGap(b []byte, blocks []*cm.RootBlock) bool {
	covered := int64(0)
	for _, rb := range blocks {
		covered += rb.EndOffset - rb.StartOffset
	}
	return covered != int64(len(b))
}

// checkTiling is the C01 oracle proper.
func checkTiling(ctx *core.Ctx, who string, b []byte, blocks []*cm.RootBlock) {
	prevEnd := int64(0)
	li := newLineIndex(b)
	for i, rb := range blocks {
		if rb == nil {
			ctx.Violation("order", "%s: block %d is nil", who, i)
			return
		}
		s, e := rb.StartOffset, rb.EndOffset
		if s < 0 || e < s || e > int64(len(b)) {
			ctx.Violation("range", "%s: block %d has range [%d,%d) in input of %d bytes", who, i, s, e, len(b))
			return
		}
		if s < prevEnd {
			code := "overlap"
			if i > 0 && s < blocks[i-1].StartOffset {
				code = "order"
			}
			ctx.Violation(code, "%s: block %d starts at %d before the end %d of block %d", who, i, s, prevEnd, i-1)
			return
		}
		for k := prevEnd; k < s; k++ {
			if ch := b[k]; ch != ' ' && ch != '\t' && ch != '\r' && ch != '\n' {
				ctx.Violation("gap_nonblank", "%s: byte %d (%q) between blocks %d and %d is not blank", who, k, ch, i-1, i)
				return
			}
		}
		want := bytes.ReplaceAll(b[s:e], []byte{0}, []byte("\xef\xbf\xbd"))
		if !bytes.Equal(rb.Source, want) {
			ctx.Violation("source_mismatch", "%s: block %d [%d,%d): Source=%s, input range with NUL replaced=%s", who, i, s, e, core.Quote(rb.Source), core.Quote(want))
			return
		}
		if wantLine := 1 + li.before(int(s)); rb.StartLine != wantLine {
			ctx.Violation("startline", "%s: block %d at offset %d has StartLine %d, want %d", who, i, s, rb.StartLine, wantLine)
			return
		}
		prevEnd = e
	}
	for k := prevEnd; k < int64(len(b)); k++ {
		if ch := b[k]; ch != ' ' && ch != '\t' && ch != '\r' && ch != '\n' {
			ctx.Violation("gap_nonblank", "%s: byte %d (%q) after the last block is not blank", who, k, ch)
			return
		}
	}
}

var _ = fmt.Sprint
