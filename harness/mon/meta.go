package mon

import (
	"bytes"
	"fmt"
	"regexp"
	"strings"

	"verif/core"
	"verif/gen"

	cm "zombiezen.com/go/commonmark"
)

// ---------------------------------------------------------------- HTML layout normalisation

var blockLevel = map[string]bool{"p": true, "h1": true, "h2": true, "h3": true, "h4": true, "h5": true, "h6": true,
	"pre": true, "blockquote": true, "ol": true, "ul": true, "li": true, "hr": true}

type htmlSeg struct {
	tag   bool
	name  string // lower-case tag name ("/p" for end tags)
	bytes []byte
}

// splitSafeHTML splits renderer output produced without raw HTML into tags
// and text. In that output '<' only ever starts a tag (C07 judges that).
func splitSafeHTML(h []byte) []htmlSeg {
	var out []htmlSeg
	for len(h) > 0 {
		if h[0] == '<' {
			end := bytes.IndexByte(h, '>')
			if end < 0 {
				end = len(h) - 1
			}
			t := h[:end+1]
			i := 1
			for i < len(t) && (t[i] == '/' || t[i] >= 'a' && t[i] <= 'z' || t[i] >= 'A' && t[i] <= 'Z' || t[i] >= '0' && t[i] <= '9') {
				i++
			}
			out = append(out, htmlSeg{tag: true, name: strings.ToLower(string(t[1:i])), bytes: t})
			h = h[end+1:]
			continue
		}
		end := bytes.IndexByte(h, '<')
		if end < 0 {
			end = len(h)
		}
		out = append(out, htmlSeg{bytes: h[:end]})
		h = h[end:]
	}
	return out
}

func isBlockTag(name string) bool { return blockLevel[strings.TrimPrefix(name, "/")] }

// normaliseLayout is the weak ("layout") whitespace normalisation: outside
// <pre>, whitespace adjacent to a block-level tag (or to either end of the
// document) is removed. strict=true removes only whitespace-only text between
// two block-level tags (or at either end).
func normaliseLayout(h []byte, strict bool) []byte {
	segs := splitSafeHTML(h)
	var out bytes.Buffer
	pre := 0
	for i, s := range segs {
		if s.tag {
			if s.name == "pre" {
				pre++
			} else if s.name == "/pre" && pre > 0 {
				pre--
			}
			out.Write(s.bytes)
			continue
		}
		t := s.bytes
		if pre == 0 {
			prevBlock := i == 0 || (segs[i-1].tag && isBlockTag(segs[i-1].name))
			nextBlock := i == len(segs)-1 || (segs[i+1].tag && isBlockTag(segs[i+1].name))
			if strict {
				if prevBlock && nextBlock && len(bytes.TrimLeft(t, " \t\r\n")) == 0 {
					t = nil
				}
			} else {
				if prevBlock {
					t = bytes.TrimLeft(t, " \t\r\n")
				}
				if nextBlock {
					t = bytes.TrimRight(t, " \t\r\n")
				}
			}
		}
		out.Write(t)
	}
	return out.Bytes()
}

// ---------------------------------------------------------------- C14

type c14 struct{}

func init() {
	core.Register(c14{})
	assumptions["C14"] = []string{
		"clause 1 compares H(crlf(x)) with every CR removed, and H(cr(x)) with every CR rewritten to LF byte by byte, against H(x) (x has no CR), in default and safe mode",
		"clause 2 prepends 1-5 whitespace-only lines ending in LF or CRLF",
		"clause 3 compares safe-mode output modulo layout whitespace (whitespace adjacent to block-level tags outside <pre>), the weak reading of 'insignificant whitespace'",
	}
}

func (c14) ID() string { return "C14" }
func (c14) Rule() string {
	return "three metamorphic relations per input x: line-ending rewrite (x without CR), blank-line padding (any x), final newline (x not ending in a line ending). Non-trivial: x has >= 2 lines, or ends inside an open block (no final line ending); distinct by input hash"
}

func (c14) Plan(tier string) []core.Segment {
	small := "c14:5"
	if tier == "thorough" {
		small = "c14:7"
	}
	return []core.Segment{
		{Gen: "spec", Count: gen.CorpusSize(), Exhaustive: true},
		{Gen: "specprefix", Count: gen.PrefixCount(), Exhaustive: true, Desc: "every prefix: documents ending inside every construct"},
		{Gen: "small", Profile: small, Count: gen.Size("small", small), Exhaustive: true},
		{Gen: "lines", Profile: "default", Count: scale(tier, 600_000, 8_000_000)},
		{Gen: "lines", Profile: "lf", Count: scale(tier, 600_000, 8_000_000)},
		{Gen: "limits", Profile: "default", Count: scale(tier, 4_000, 100_000), Desc: "documents on numeric thresholds (labels of 999 characters with line endings inside, 8 KiB read window, ...)"},
		{Gen: "defsplit", Profile: "default", Count: scale(tier, 150_000, 4_000_000), Desc: "definition-like paragraphs cut into lines at every place, inside containers with space/tab/partly consumed tab prefixes and hostile bytes right after the prefix"},
		{Gen: "inlinex", Profile: "default", Count: scale(tier, 150_000, 4_000_000), Desc: "well-formed inline trees whose delimiter tokens were deleted, duplicated, moved, swapped or respelled: constructs crossing each other's boundaries"},
		{Gen: "modeldoc", Profile: "full", Count: scale(tier, 100_000, 3_000_000), Desc: "Markdown of model documents: nested containers, structural tabs, laziness, multi-line inline constructs"},
		{Gen: "modeldoc", Profile: "deep", Count: scale(tier, 10_000, 300_000), Desc: "Markdown of model documents: nested containers, structural tabs, laziness, multi-line inline constructs", Batch: 2000},
		{Gen: "soup", Profile: "default", Count: scale(tier, 450_000, 6_000_000)},
		{Gen: "soup", Profile: "tabfree", Count: scale(tier, 300_000, 4_000_000)},
		{Gen: "soup", Profile: "html", Count: scale(tier, 150_000, 2_000_000)},
		{Gen: "specmut", Count: scale(tier, 300_000, 4_000_000)},
	}
}

func (c14) Directed() []core.Directed {
	return []core.Directed{
		d("    code\n    ", "P13: indented code followed by a whitespace-only line without newline"),
		d("\tcode\n   ", "P13 variant"),
		d("```\ncode", "fence open at EOF"),
		d("```\ncode\n```", "closing fence without newline"),
		d("<div>\nhtml", "HTML block at EOF"),
		d("<!-- c", "comment at EOF"),
		d("Title\n===", "setext underline at EOF"),
		d("- a\n\n  ", "list item with trailing blank"),
		d("[a]: /u\n'title'", "definition with title on the last line"),
		d("[a]: /u\n'title", "unterminated title at EOF"),
		d("> q\n> ", "quote with trailing blank"),
		d("a  ", "trailing spaces"), d("a\\", "trailing backslash"),
		d("foo\\\nbar\nbaz  \nqux", "hard breaks with LF"),
		d("`a\nb`\n\n<a\nb>\n\n[x\ny](/u\n\"t\nu\")", "multi-line inlines"),
	}
}

func crlfOf(x []byte) []byte { return bytes.ReplaceAll(x, []byte("\n"), []byte("\r\n")) }
func crOf(x []byte) []byte   { return bytes.ReplaceAll(x, []byte("\n"), []byte("\r")) }

// render2 parses b in memory (sched < 0) or through the streaming parser under the
// given read schedule, and renders the result twice.
func render2(b []byte, sched int, seed uint64) (def, safe []byte, blocks []*cm.RootBlock, refs cm.ReferenceMap) {
	if sched < 0 {
		blocks, refs, _ = core.ParseCopy(b)
	} else {
		data := append([]byte(nil), b...)
		_, chunk, zeros, eofData := scheduleChunk(sched, core.NewRand(seed), data)
		sr := &SchedReader{Data: data, Chunk: chunk, Zeros: zeros, EOFWithData: eofData, FailAt: -1}
		res := StreamParse(sr, nil, data, true)
		blocks, refs = res.Blocks, res.Refs
	}
	def = core.RenderDefault(blocks, refs)
	safe = core.RenderSafe(blocks, refs)
	return
}

func (c14) Check(ctx *core.Ctx, c *core.Case) {
	x := c.Input
	rnd := core.NewRand(c.Seed)
	// Two cases in three go through Parse; the third goes through the streaming parser
	// (the property names no entry point), every variant of it under the same kind of
	// read schedule: 1-byte reads, small random reads, or reads cut inside CRLF pairs.
	sched := -1
	if c.Seed%3 == 0 && len(x) <= 64*1024 {
		sched = []int{1, 5, 8, 4}[c.Seed/3%4]
		ctx.Inc("cases_through_streaming_parser")
	}
	render2 := func(b []byte) ([]byte, []byte, []*cm.RootBlock, cm.ReferenceMap) {
		return render2(b, sched, c.Seed)
	}
	hDef, hSafe, blocks, refs := render2(x)
	if ctx.Verbose {
		ctx.Log("%s\nhtml: %s", core.DumpBlocks(blocks, refs), core.Quote(hDef))
	}

	// clause 1
	if !hasCR(x) && bytes.IndexByte(x, '\n') >= 0 {
		d1, s1, _, _ := render2(crlfOf(x))
		if got := bytes.ReplaceAll(d1, []byte("\r"), nil); !bytes.Equal(got, hDef) {
			ctx.Violation("crlf", "LF->CRLF changes the default rendering beyond line-ending bytes:\n LF:   %s\n CRLF: %s", core.Quote(hDef), core.Quote(d1))
			return
		}
		if got := bytes.ReplaceAll(s1, []byte("\r"), nil); !bytes.Equal(got, hSafe) {
			ctx.Violation("crlf", "LF->CRLF changes the safe-mode rendering beyond line-ending bytes:\n LF:   %s\n CRLF: %s", core.Quote(hSafe), core.Quote(s1))
			return
		}
		d2, s2, _, _ := render2(crOf(x))
		if got := bytes.ReplaceAll(d2, []byte("\r"), []byte("\n")); !bytes.Equal(got, hDef) {
			ctx.Violation("cr", "LF->CR changes the default rendering beyond line-ending bytes:\n LF: %s\n CR: %s", core.Quote(hDef), core.Quote(d2))
			return
		}
		if got := bytes.ReplaceAll(s2, []byte("\r"), []byte("\n")); !bytes.Equal(got, hSafe) {
			ctx.Violation("cr", "LF->CR changes the safe-mode rendering beyond line-ending bytes:\n LF: %s\n CR: %s", core.Quote(hSafe), core.Quote(s2))
			return
		}
		ctx.Inc("clause1_checked")
	}

	// clause 2
	{
		var p []byte
		nl := 0
		for k := rnd.Range(1, 5); k > 0; k-- {
			for j := rnd.Intn(4); j > 0; j-- {
				p = append(p, " \t"[rnd.Intn(2)])
			}
			if rnd.Intn(3) == 0 {
				p = append(p, '\r', '\n')
			} else {
				p = append(p, '\n')
			}
			nl++
		}
		px := append(append([]byte(nil), p...), x...)
		pd, _, pblocks, prefs := render2(px)
		if a, b := core.Fingerprint(pblocks, prefs, core.FPOpts{NoPositions: true}), core.Fingerprint(blocks, refs, core.FPOpts{NoPositions: true}); a != b {
			ctx.Violation("pad_tree", "prepending %s changes the trees or the reference map\n--- padded\n%s\n--- original\n%s", core.Quote(p), clip(a), clip(b))
			return
		}
		for i := range blocks {
			if pblocks[i].StartOffset != blocks[i].StartOffset+int64(len(p)) || pblocks[i].EndOffset != blocks[i].EndOffset+int64(len(p)) {
				ctx.Violation("pad_offsets", "prepending %d bytes: block %d offsets [%d,%d) -> [%d,%d)", len(p), i, blocks[i].StartOffset, blocks[i].EndOffset, pblocks[i].StartOffset, pblocks[i].EndOffset)
				return
			}
			if pblocks[i].StartLine != blocks[i].StartLine+nl {
				ctx.Violation("pad_lines", "prepending %d lines: block %d StartLine %d -> %d", nl, i, blocks[i].StartLine, pblocks[i].StartLine)
				return
			}
		}
		if !bytes.Equal(pd, hDef) {
			ctx.Violation("pad_html", "prepending blank lines changes the HTML: %s vs %s", core.Quote(hDef), core.Quote(pd))
			return
		}
		ctx.Inc("clause2_checked")
	}

	// clause 3
	if n := len(x); n > 0 && x[n-1] != '\n' && x[n-1] != '\r' {
		_, s3, _, _ := render2(append(append([]byte(nil), x...), '\n'))
		a, b := normaliseLayout(hSafe, false), normaliseLayout(s3, false)
		if !bytes.Equal(a, b) {
			ctx.Violation("final_newline", "appending a final newline changes the safe-mode rendering:\n without: %s\n with:    %s", core.Quote(hSafe), core.Quote(s3))
			return
		}
		ctx.Inc("clause3_checked")
		ctx.NonTrivial()
		if len(blocks) > 0 {
			ctx.Inc("ends_in:" + lastLeafKind(blocks[len(blocks)-1]))
		}
	}
	if countLines(x) >= 2 {
		ctx.NonTrivial()
	}
}

func lastLeafKind(rb *cm.RootBlock) string {
	n := rb.AsNode()
	for {
		cc := n.ChildCount()
		if cc == 0 || n.Child(cc-1).Block() == nil {
			return core.KindName(n)
		}
		n = n.Child(cc - 1)
	}
}

// ---------------------------------------------------------------- C16

type c16 struct{}

func init() {
	core.Register(c16{})
	assumptions["C16"] = []string{
		"exception read as: a Paragraph or SetextHeading root block whose StartOffset equals the EndOffset of a preceding LinkReferenceDefinition root block is skipped (a setext heading is that same paragraph plus an underline)",
		"re-parse = NewBlockParser over the block's Source, Rewrite with the document's reference map as matcher; comparison on the fingerprint without document positions",
	}
}

func (c16) ID() string { return "C16" }
func (c16) Rule() string {
	return "every root block of Parse(x) is streamed again from its own Source and rewritten with x's reference map: exactly one block with an identical tree fingerprint. Non-trivial: x has >= 2 root blocks and the block is a container or spans >= 2 lines; distinct by input hash"
}

func (c16) Plan(tier string) []core.Segment {
	small := "c16:5"
	if tier == "thorough" {
		small = "c16:6"
	}
	return []core.Segment{
		{Gen: "spec", Count: gen.CorpusSize(), Exhaustive: true},
		{Gen: "specprefix", Count: gen.PrefixCount(), Exhaustive: true},
		{Gen: "small", Profile: small, Count: gen.Size("small", small), Exhaustive: true},
		{Gen: "lines", Profile: "default", Count: scale(tier, 750_000, 10_000_000)},
		{Gen: "limits", Profile: "default", Count: scale(tier, 4_000, 100_000), Desc: "documents on numeric thresholds"},
		{Gen: "defsplit", Profile: "default", Count: scale(tier, 150_000, 4_000_000), Desc: "definition-like paragraphs cut into lines at every place, inside containers with space/tab/partly consumed tab prefixes and hostile bytes right after the prefix"},
		{Gen: "inlinex", Profile: "default", Count: scale(tier, 150_000, 4_000_000), Desc: "well-formed inline trees whose delimiter tokens were deleted, duplicated, moved, swapped or respelled: constructs crossing each other's boundaries"},
		{Gen: "modeldoc", Profile: "full", Count: scale(tier, 100_000, 3_000_000), Desc: "Markdown of model documents: nested containers, structural tabs, laziness, multi-line inline constructs"},
		{Gen: "modeldoc", Profile: "deep", Count: scale(tier, 10_000, 300_000), Desc: "Markdown of model documents: nested containers, structural tabs, laziness, multi-line inline constructs", Batch: 2000},
		{Gen: "lines", Profile: "hostile", Count: scale(tier, 150_000, 2_000_000)},
		{Gen: "soup", Profile: "default", Count: scale(tier, 600_000, 8_000_000)},
		{Gen: "soup", Profile: "crnul", Count: scale(tier, 150_000, 2_000_000)},
		{Gen: "specmut", Count: scale(tier, 450_000, 6_000_000)},
		{Gen: "bigdoc", Count: scale(tier, 600, 20000), Desc: "8-40 KiB documents: hundreds of root blocks cut from one buffer", Batch: 50},
	}
}

func (c16) Directed() []core.Directed {
	return []core.Directed{
		d("[a]: /u\n- \n---\n", "P17: definition + setext heading (exception)"),
		d("[a]: /u\nrest\n", "definition + continuation paragraph (exception)"),
		d("- a\n\n- b\n\nnext\n", "loose list followed by a paragraph"),
		d("- a\n- b\n\n\nnext\n", "tight list with trailing blanks"),
		d("> q\nlazy\n\n    code\n\n\n    more\nx\n", "lazy continuation, indented code with blanks"),
		d("1. a\n\n   b\n2. c\n***\n", "list closed by a break"),
		d("<div>\nx\n\ny\n", "html block closed by blank"),
		d("```\nx\n```\ny\n", "fence then paragraph"),
		d("a\n===\nb\n---\n# c\n", "headings"),
	}
}

func (c16) Check(ctx *core.Ctx, c *core.Case) {
	blocks, refs, _ := core.ParseCopy(c.Input)
	if ctx.Verbose {
		ctx.Log("%s", core.DumpBlocks(blocks, refs))
	}
	for i, rb := range blocks {
		if i > 0 && blocks[i-1].Kind() == cm.LinkReferenceDefinitionKind && rb.StartOffset == blocks[i-1].EndOffset &&
			(rb.Kind() == cm.ParagraphKind || rb.Kind() == cm.SetextHeadingKind) {
			ctx.Inc("skipped_continuation_after_definition")
			continue
		}
		p := cm.NewBlockParser(bytes.NewReader(rb.Source))
		var again []*cm.RootBlock
		for {
			nb, err := p.NextBlock()
			if err != nil {
				break
			}
			again = append(again, nb)
			if len(again) > len(rb.Source)+2 {
				break
			}
		}
		if len(again) != 1 {
			var kinds []string
			for _, a := range again {
				kinds = append(kinds, a.Kind().String())
			}
			ctx.Violation("block_count", "root block %d (%s) re-parses to %d blocks %v; Source=%s", i, rb.Kind(), len(again), kinds, core.Quote(rb.Source))
			return
		}
		ip := &cm.InlineParser{ReferenceMatcher: refs}
		ip.Rewrite(again[0])
		var a, b strings.Builder
		core.FingerprintRoot(&a, rb, core.FPOpts{NoPositions: true})
		core.FingerprintRoot(&b, again[0], core.FPOpts{NoPositions: true})
		if a.String() != b.String() {
			ctx.Violation("tree_differs", "root block %d re-parsed alone differs\n--- in document\n%s\n--- alone\n%s", i, clip(a.String()), clip(b.String()))
			return
		}
		ctx.Inc("blocks_reparsed:" + rb.Kind().String())
		if len(blocks) >= 2 && (rb.ChildCount() > 0 && rb.Child(0).Block() != nil || countLines(rb.Source) >= 2) {
			ctx.NonTrivial()
		}
	}
}

// ---------------------------------------------------------------- C09

type c09 struct{}

func init() {
	core.Register(c09{})
	assumptions["C09"] = []string{
		"the contained blocks are compared on their safe-mode rendering as roots (the quantifier's own criterion); kinds, accessors and reference maps are recorded, not judged",
		"thematic-break exception decided by my own regexp on the transformed first line; lines are split on LF, CRLF and CR",
	}
}

func (c09) ID() string { return "C09" }
func (c09) Rule() string {
	return "per tab-free D: quote(D) must be one BlockQuote whose children render (safe mode, as roots) exactly like the root blocks of D; when D starts with a non-space and has no whitespace-only line, listitem(D, marker, N) for 2 sampled (marker, N in 1..4) must be a one-item List whose item children after the marker do the same. Non-trivial: D has >= 2 root blocks, or >= 2 lines; distinct by input hash"
}

func (c09) Plan(tier string) []core.Segment {
	return []core.Segment{
		{Gen: "spec", Profile: "tabfree", Count: gen.CorpusSize(), Exhaustive: true},
		{Gen: "lines", Profile: "tabfree", Count: scale(tier, 750_000, 10_000_000)},
		{Gen: "limits", Profile: "tabfree", Count: scale(tier, 12_000, 300_000), Desc: "documents on numeric thresholds"},
		{Gen: "defsplit", Profile: "tabfree", Count: scale(tier, 150_000, 4_000_000), Desc: "definition-like paragraphs cut into lines at every place, inside containers with space/tab/partly consumed tab prefixes and hostile bytes right after the prefix"},
		{Gen: "inlinex", Profile: "tabfree", Count: scale(tier, 150_000, 4_000_000), Desc: "well-formed inline trees whose delimiter tokens were deleted, duplicated, moved, swapped or respelled: constructs crossing each other's boundaries"},
		{Gen: "modeldoc", Profile: "full", Count: scale(tier, 100_000, 3_000_000), Desc: "Markdown of model documents: nested containers, structural tabs, laziness, multi-line inline constructs"},
		{Gen: "modeldoc", Profile: "deep", Count: scale(tier, 10_000, 300_000), Desc: "Markdown of model documents: nested containers, structural tabs, laziness, multi-line inline constructs", Batch: 2000},
		{Gen: "soup", Profile: "tabfree", Count: scale(tier, 600_000, 8_000_000)},
		{Gen: "specmut", Profile: "tabfree", Count: scale(tier, 450_000, 6_000_000)},
		{Gen: "small", Profile: "c16:5", Count: gen.Size("small", "c16:5"), Exhaustive: true},
	}
}

func (c09) Directed() []core.Directed {
	return []core.Directed{
		d("[a]: /u\n-", "P10: definition then remainder"),
		d("[a]: /u\\\nb", "P11"),
		d("[a](/u\n'ti\ntle')", "P9: multi-line title"),
		d("# <b>\nfoo", "P7"),
		d("a\n===\n\n`x\ny`\n\n<a\nb>\n", "setext, multi-line code span and raw tag"),
		d("[x][foo\nbar]\n\n[foo bar]: /u\n", "P8"),
		d("- a\n  - b\n\n1. c\n", "nested lists"),
		d("```\ncode\n```\n    ind\n", "code"),
	}
}

var thematicRe = regexp.MustCompile(`^ {0,3}(?:(?:\*[ \t]*){3,}|(?:-[ \t]*){3,}|(?:_[ \t]*){3,})(?:\r\n|\r|\n)?$`)

func renderAsRoot(r *cm.HTMLRenderer, src []byte, n cm.Node) []byte {
	b := n.Block()
	if b == nil {
		return []byte("<not a block>")
	}
	rb := &cm.RootBlock{Source: src, Block: *b}
	return r.AppendBlock(nil, rb)
}

func (c09) Check(ctx *core.Ctx, c *core.Case) {
	D := c.Input
	if bytes.IndexByte(D, '\t') >= 0 {
		D = bytes.ReplaceAll(D, []byte("\t"), []byte(" "))
	}
	if len(D) == 0 {
		ctx.Skip("empty")
		return
	}
	rnd := core.NewRand(c.Seed)
	dBlocks, dRefs, _ := core.ParseCopy(D)
	dr := &cm.HTMLRenderer{ReferenceMap: dRefs, IgnoreRaw: true}
	want := make([][]byte, len(dBlocks))
	for i, rb := range dBlocks {
		want[i] = dr.AppendBlock(nil, rb)
	}
	lines := gen.SplitLines(D)
	if len(dBlocks) >= 2 || len(lines) >= 2 {
		ctx.NonTrivial()
	}

	compare := func(what string, T []byte, container func(tb []*cm.RootBlock) (cm.Node, int, string)) bool {
		tBlocks, tRefs, _ := core.ParseCopy(T)
		node, skip, problem := container(tBlocks)
		if problem != "" {
			ctx.Violation("not_single_container", "%s: %s; T(D)=%s", what, problem, core.Quote(T))
			return false
		}
		n := node.ChildCount() - skip
		if n != len(dBlocks) {
			var kinds []string
			for i := skip; i < node.ChildCount(); i++ {
				kinds = append(kinds, core.KindName(node.Child(i)))
			}
			var dk []string
			for _, rb := range dBlocks {
				dk = append(dk, rb.Kind().String())
			}
			ctx.Violation("child_count", "%s: container holds %d blocks %v, D has %d root blocks %v; T(D)=%s", what, n, kinds, len(dBlocks), dk, core.Quote(T))
			return false
		}
		tr := &cm.HTMLRenderer{ReferenceMap: tRefs, IgnoreRaw: true}
		src := tBlocks[0].Source
		for i := 0; i < n; i++ {
			ch := node.Child(skip + i)
			got := renderAsRoot(tr, src, ch)
			if !bytes.Equal(got, want[i]) {
				ctx.Violation("child_differs", "%s: contained block %d renders differently\n in D:    %s\n in T(D): %s\n T(D)=%s", what, i, core.Quote(want[i]), core.Quote(got), core.Quote(T))
				return false
			}
			if ch.Block().Kind() != dBlocks[i].Kind() {
				// "exactly the blocks of D": a block of another kind is another block, even if it
				// renders alike (judged since round 7; never observed on the unchanged tree)
				ctx.Violation("child_kind", "%s: contained block %d is a %s, in D it is a %s; T(D)=%s", what, i, ch.Block().Kind(), dBlocks[i].Kind(), core.Quote(T))
				return false
			}
		}
		if core.FingerprintRefs(tRefs) != core.FingerprintRefs(dRefs) {
			// definitions are blocks of D that render to nothing: their content shows in the map
			ctx.Violation("refmap_differs", "%s: the definitions of T(D) give another reference map than those of D: %s vs %s; T(D)=%s", what, core.FingerprintRefs(tRefs), core.FingerprintRefs(dRefs), core.Quote(T))
			return false
		}
		ctx.Count("contained_blocks_compared", int64(n))
		return true
	}

	// quote
	T := gen.QuoteDoc(rnd, D)
	ok := compare("quote", T, func(tb []*cm.RootBlock) (cm.Node, int, string) {
		if len(tb) != 1 || tb[0].Kind() != cm.BlockQuoteKind {
			return cm.Node{}, 0, fmt.Sprintf("quote(D) parses to %d root blocks %s, want one BlockQuote", len(tb), rootKinds(tb))
		}
		return tb[0].AsNode(), 0, ""
	})
	ctx.Inc("quote_checked")
	if !ok {
		return
	}
	// the marker's optional space left out
	ok = compare("quote(no space)", gen.QuoteDocNoSpace(D), func(tb []*cm.RootBlock) (cm.Node, int, string) {
		if len(tb) != 1 || tb[0].Kind() != cm.BlockQuoteKind {
			return cm.Node{}, 0, fmt.Sprintf("quote(D) parses to %d root blocks %s, want one BlockQuote", len(tb), rootKinds(tb))
		}
		return tb[0].AsNode(), 0, ""
	})
	ctx.Inc("quote_nospace_checked")
	if !ok {
		return
	}

	// list item
	if D[0] == ' ' || D[0] == '\n' || D[0] == '\r' {
		ctx.Inc("list_precondition_unmet")
		return
	}
	for _, l := range lines {
		if len(bytes.TrimRight(l, " \r\n")) == 0 {
			ctx.Inc("list_precondition_unmet")
			return
		}
	}
	for v := 0; v < 2; v++ {
		var marker string
		switch rnd.Intn(5) {
		case 0:
			marker = "-"
		case 1:
			marker = "+"
		case 2:
			marker = "*"
		default:
			digits := rnd.Range(1, 9)
			var sb strings.Builder
			for k := 0; k < digits; k++ {
				sb.WriteByte(byte('0' + rnd.Intn(10)))
			}
			sb.WriteByte(".)"[rnd.Intn(2)])
			marker = sb.String()
		}
		N := rnd.Range(1, 4)
		T := gen.ListItemDoc(D, marker, N)
		first := gen.SplitLines(T)[0]
		if thematicRe.Match(first) {
			ctx.Inc("list_skipped_thematic_break")
			continue
		}
		what := fmt.Sprintf("listitem(%q,N=%d)", marker, N)
		ok := compare(what, T, func(tb []*cm.RootBlock) (cm.Node, int, string) {
			if len(tb) != 1 || tb[0].Kind() != cm.ListKind {
				return cm.Node{}, 0, fmt.Sprintf("parses to %d root blocks %s, want one List", len(tb), rootKinds(tb))
			}
			if tb[0].ChildCount() != 1 || tb[0].Child(0).Block().Kind() != cm.ListItemKind {
				return cm.Node{}, 0, fmt.Sprintf("the List has %d children, want one ListItem", tb[0].ChildCount())
			}
			item := tb[0].Child(0)
			if item.ChildCount() == 0 || item.Child(0).Block().Kind() != cm.ListMarkerKind {
				return cm.Node{}, 0, "the item does not start with a ListMarker"
			}
			return item, 1, ""
		})
		ctx.Inc("list_checked")
		if !ok {
			return
		}
	}
}

func rootKinds(tb []*cm.RootBlock) string {
	var k []string
	for _, b := range tb {
		k = append(k, b.Kind().String())
	}
	return fmt.Sprint(k)
}

// normaliseBlockWS is the strict block-whitespace normalisation: whitespace-only
// text between two block-level tags of the renderer's vocabulary (or at either
// end of the document) is deleted, never inside <pre>; nothing else changes.
func normaliseBlockWS(h []byte) []byte { return normaliseLayout(h, true) }
