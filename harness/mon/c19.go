package mon

import (
	"bytes"
	"fmt"
	"runtime"
	"strings"
	"sync"
	"sync/atomic"

	"verif/core"
	"verif/gen"

	cm "zombiezen.com/go/commonmark"
	"zombiezen.com/go/commonmark/format"
)

// C19 — Parsing and rendering share no mutable state.
//
// Each case is one stress round executed by a worker built with -race. Data
// race reports are collected by the parent from the GORACE log files; this
// monitor adds the result-equality oracle and the overlap accounting.
type c19 struct{}

func init() {
	core.Register(c19{})
	assumptions["C19"] = []string{
		"interleavings are sampled, not enumerated; the race detector sees only the accesses the workload executes",
		"yield points are injected only where the library calls back into the client (FilterTag, Walk callbacks, io.Writer.Write), i.e. at real suspension points",
		"excluded by contract: concurrent use of one BlockParser; FilterTag predicates that retain their argument",
	}
}

func (c19) ID() string { return "C19" }
func (c19) Rule() string {
	return "each case is one round under the -race build: phase A = 32 goroutines released by one barrier, each parsing its own copy of one of 16 documents (labels, entities, HTML blocks, upper-case raw tags); phase B = 48 goroutines on ONE shared parsed tree doing Render (all configurations, through shared and private HTMLRenderer values), AppendBlock, Format, Walk, accessor sweeps and MatchReference with Gosched yields in FilterTag / Walk callbacks / Write. Every concurrent result must equal the sequential one and the tree must be unchanged. Non-trivial: operations overlapped in time during the round; distinct by round seed"
}

func (c19) Plan(tier string) []core.Segment {
	return []core.Segment{
		{Gen: "index", Profile: "c19-round", Count: scale(tier, 1_200, 20_000), Race: true, Batch: 20, Desc: "stress rounds (GOMAXPROCS alternates between 2 and 16)"},
	}
}

func (c19) Directed() []core.Directed { return nil }
func (c19) NoMinimise() bool          { return true }

func (c19) Gates(tier string, counters map[string]int64) []string {
	var out []string
	if counters["rounds_race_build"] == 0 || counters["rounds_race_build"] != counters["rounds"] {
		out = append(out, fmt.Sprintf("%d of %d rounds ran under the -race build", counters["rounds_race_build"], counters["rounds"]))
	}
	if counters["ops_overlapping"] == 0 {
		out = append(out, "no two operations overlapped in time: the run observed no concurrency")
	}
	return out
}

type yieldWriter struct {
	buf bytes.Buffer
	n   int
}

func (w *yieldWriter) Write(p []byte) (int, error) {
	w.n++
	if w.n%3 == 0 {
		runtime.Gosched()
	}
	return w.buf.Write(p)
}

func yielding(f func([]byte) bool) func([]byte) bool {
	if f == nil {
		return nil
	}
	return func(tag []byte) bool {
		r := f(tag)
		runtime.Gosched()
		for i := 0; i < 20; i++ { // short spin between uses of the renderer's scratch state
			_ = i
		}
		return r
	}
}

func c19Docs(rnd *core.Rand) [][]byte {
	var docs [][]byte
	for i := 0; i < 16; i++ {
		var d []byte
		switch i % 4 {
		case 0:
			d = gen.Lines(rnd.Fork(), "default")
			if i%8 == 4 {
				// NUL bytes: Parse has to widen them (U+FFFD), which must never happen
				// inside the caller's buffer
				d = append(gen.Lines(rnd.Fork(), "hostile"), []byte("\n\nnul \x00 in \x00\x00 text\n\n# h\x00\n")...)
			}
		case 1:
			d = gen.Soup(rnd.Fork(), "html", 10, 80)
		case 2:
			d = gen.Soup(rnd.Fork(), "inline", 10, 80)
		default:
			d = []byte("[Foo BAR]: /u 'T'\n\n[foo bar] &amp; &copy; <DIV CLASS=\"x\">\n\n<SCRIPT>x</SCRIPT>\n\n<Title>t</Title>\n\n* a <B>b</B>\n* [ẞ]\n\n[SS]: /ss\n")
			d = append(d, gen.Lines(rnd.Fork(), "default")...)
		}
		docs = append(docs, d)
	}
	return docs
}

func walkDigest(blocks []*cm.RootBlock, yield bool) uint64 {
	h := uint64(1469598103934665603)
	for _, rb := range blocks {
		cm.Walk(rb.AsNode(), &cm.WalkOptions{
			Pre: func(cur *cm.Cursor) bool {
				sp := cur.Node().Span()
				h = core.Mix(h, uint64(sp.Start), uint64(sp.End), uint64(cur.Index()+2), core.HashString(core.KindName(cur.Node())), core.HashString(cur.ParentBlock().Kind().String()))
				if yield && sp.Start%3 == 0 {
					runtime.Gosched()
				}
				return true
			},
			Post: func(cur *cm.Cursor) bool {
				h = core.Mix(h, 7, uint64(cur.Node().Span().End))
				return true
			},
		})
	}
	return h
}

// abortWalkDigest walks every block with a policy that prunes some subtrees and
// ends the walk early by returning false from Post at the stopAt-th Post event.
func abortWalkDigest(blocks []*cm.RootBlock, stopAt int, yield bool) uint64 {
	h := uint64(42)
	for _, rb := range blocks {
		posts := 0
		cm.Walk(rb.AsNode(), &cm.WalkOptions{
			Pre: func(cur *cm.Cursor) bool {
				sp := cur.Node().Span()
				h = core.Mix(h, 1, uint64(sp.Start), uint64(sp.End), uint64(cur.Index()+2))
				if yield && sp.End%2 == 0 {
					runtime.Gosched()
				}
				return (sp.Start+sp.End)%5 != 0
			},
			Post: func(cur *cm.Cursor) bool {
				posts++
				h = core.Mix(h, 2, uint64(cur.Node().Span().End), uint64(posts))
				return posts < stopAt
			},
		})
	}
	return h
}

func accessorDigest(blocks []*cm.RootBlock) uint64 {
	h := uint64(99)
	for _, rb := range blocks {
		src := rb.Source
		core.WalkTree(rb.AsNode(), func(n, _ cm.Node, _, _ int) {
			if b := n.Block(); b != nil {
				h = core.Mix(h, uint64(b.HeadingLevel()), uint64(b.ListItemNumber(src)+5))
				if is := b.InfoString(); is != nil {
					h = core.Mix(h, core.HashString(is.Text(src)))
				}
			} else if in := n.Inline(); in != nil {
				h = core.Mix(h, core.HashString(in.Text(src)), core.HashString(in.LinkReference()), uint64(in.IndentWidth()))
			}
		})
	}
	return h
}

func (c19) Check(ctx *core.Ctx, c *core.Case) {
	rnd := core.NewRand(c.Seed)
	procs := 16
	if c.Index%2 == 1 {
		procs = 2
	}
	old := runtime.GOMAXPROCS(procs)
	defer runtime.GOMAXPROCS(old)
	ctx.Inc("rounds")
	ctx.Inc(fmt.Sprintf("rounds_gomaxprocs_%d", procs))
	if core.RaceEnabled {
		ctx.Inc("rounds_race_build")
	}

	docs := c19Docs(rnd)

	// sequential references
	seqFP := make([]string, len(docs))
	for i, dd := range docs {
		b, r, _ := core.ParseCopy(dd)
		seqFP[i] = core.Fingerprint(b, r, core.FPOpts{})
	}
	// A document of per-round extremes: indentation widths, nesting depths and digit counts that
	// no earlier round of this process has rendered, so that any grow-on-demand package-level
	// table or pool is grown while several goroutines are inside the library (seeded change
	// C19-j: a shared run of spaces grown from the read-only render path).
	w := 17 + int(c.Index%211)
	extremes := "<pre>\n" + strings.Repeat("\t", 5+w/4) + "</pre>\n\n<!--\n" + strings.Repeat(" ", w) + "x -->\n\n" +
		"- <?p\n" + strings.Repeat(" ", w+2) + "?>\n\n" + strings.Repeat("> ", 3+w%40) + "deep\n\n" +
		strings.Repeat(" ", 3) + strings.Repeat("1", 1+w%9) + ". item\n\n" + strings.Repeat("#", 1+w%6) + " h " + strings.Repeat("*", w%30) + "\n\n" +
		"```" + strings.Repeat("`", w) + "\n" + strings.Repeat(" ", w) + "code\n```" + strings.Repeat("`", w) + "\n"
	// The tree starts with a heading whose text could be a list marker: the formatter's very
	// first decision then depends on the initial state of its writer (seeded change C19-i: a
	// pooled writer handed out in two different initial states).
	shared := bytes.Join(append(append([][]byte{[]byte("# 1. Introduction")}, docs[:6]...), []byte(extremes)), []byte("\n\n"))
	sBlocks, sRefs, _ := core.ParseCopy(shared)

	// ---- phase B0 ("cold"): the shared tree is rendered, formatted and walked concurrently
	// BEFORE anything has rendered it sequentially; the outputs are compared with the
	// sequential ones further down.
	type coldOut struct {
		render, safe, format []byte
		walk, acc            uint64
	}
	cold := make([]coldOut, 8)
	{
		var wg sync.WaitGroup
		start := make(chan struct{})
		for g := range cold {
			g := g
			wg.Add(1)
			go func() {
				defer wg.Done()
				<-start
				switch g % 4 {
				case 0:
					cold[g].render, _ = core.Render(sBlocks, sRefs, core.RenderCfg{})
				case 1:
					cold[g].safe = core.RenderSafe(sBlocks, sRefs)
					cold[g].acc = accessorDigest(sBlocks)
				case 2:
					var bb bytes.Buffer
					format.Format(&bb, sBlocks)
					cold[g].format = bb.Bytes()
				default:
					cold[g].walk = walkDigest(sBlocks, true)
					cold[g].render, _ = core.Render(sBlocks, sRefs, core.RenderCfg{})
				}
			}()
		}
		close(start)
		wg.Wait()
		ctx.Count("ops:cold-concurrent(first use of the tree)", int64(len(cold)))
	}
	treeFP := core.Fingerprint(sBlocks, sRefs, core.FPOpts{})
	cfgs := allRenderConfigs()
	for i := range cfgs {
		cfgs[i].Filter = yielding(cfgs[i].Filter)
	}
	seqRender := make([][]byte, len(cfgs))
	sharedRenderers := make([]*cm.HTMLRenderer, len(cfgs))
	for i, cfg := range cfgs {
		seqRender[i], _ = core.Render(sBlocks, sRefs, cfg)
		sharedRenderers[i] = cfg.Renderer(sRefs)
	}
	seqAppend := make([][][]byte, len(cfgs))
	for i := range cfgs {
		for _, rb := range sBlocks {
			seqAppend[i] = append(seqAppend[i], sharedRenderers[i].AppendBlock(nil, rb))
		}
	}
	var seqFormat bytes.Buffer
	format.Format(&seqFormat, sBlocks)
	seqWalk := walkDigest(sBlocks, false)
	seqAcc := accessorDigest(sBlocks)
	// walks that are ended early by Post (a multi-step precondition of seeded change C19-g:
	// state released twice on the abort path only corrupts later, overlapping walks)
	seqAbort := make([]uint64, 6)
	for i := range seqAbort {
		seqAbort[i] = abortWalkDigest(sBlocks, 1+i*3, false)
	}
	ctx.Count("ops:Walk-aborted-by-Post(sequential)", int64(len(seqAbort)))
	var keys []string
	for k := range sRefs {
		keys = append(keys, k)
	}

	coldFailures := []string{}
	{
		seqDefault, _ := core.Render(sBlocks, sRefs, core.RenderCfg{})
		seqSafe := core.RenderSafe(sBlocks, sRefs)
		for g, co := range cold {
			switch {
			case co.render != nil && !bytes.Equal(co.render, seqDefault):
				coldFailures = append(coldFailures, fmt.Sprintf("goroutine %d: Render", g))
			case co.safe != nil && !bytes.Equal(co.safe, seqSafe):
				coldFailures = append(coldFailures, fmt.Sprintf("goroutine %d: safe-mode Render", g))
			case co.format != nil && !bytes.Equal(co.format, seqFormat.Bytes()):
				coldFailures = append(coldFailures, fmt.Sprintf("goroutine %d: Format", g))
			case co.walk != 0 && co.walk != seqWalk:
				coldFailures = append(coldFailures, fmt.Sprintf("goroutine %d: Walk", g))
			case co.acc != 0 && co.acc != seqAcc:
				coldFailures = append(coldFailures, fmt.Sprintf("goroutine %d: accessors", g))
			}
		}
	}

	var running, maxRunning, overlapping, opsTotal int64
	var mu sync.Mutex
	var failures []string
	fail := func(code, format string, a ...any) {
		mu.Lock()
		if len(failures) < 4 {
			failures = append(failures, code+"\x00"+fmt.Sprintf(format, a...))
		}
		mu.Unlock()
	}
	begin := func() bool {
		n := atomic.AddInt64(&running, 1)
		for {
			m := atomic.LoadInt64(&maxRunning)
			if n <= m || atomic.CompareAndSwapInt64(&maxRunning, m, n) {
				break
			}
		}
		atomic.AddInt64(&opsTotal, 1)
		return n > 1
	}
	end := func(overlappedAtStart bool) {
		n := atomic.AddInt64(&running, -1)
		if overlappedAtStart || n > 0 {
			atomic.AddInt64(&overlapping, 1)
		}
	}

	// ---- phase A: concurrent parses of distinct inputs
	{
		const G = 32
		var wg sync.WaitGroup
		start := make(chan struct{})
		for g := 0; g < G; g++ {
			di := g % len(docs)
			own := append([]byte(nil), docs[di]...)
			wg.Add(1)
			go func() {
				defer wg.Done()
				<-start
				ov := begin()
				b, r := cm.Parse(own)
				fp := core.Fingerprint(b, r, core.FPOpts{})
				end(ov)
				if fp != seqFP[di] {
					fail("result_differs(Parse)", "concurrent Parse of document %d differs from the sequential parse; input %s", di, core.Quote(docs[di]))
				}
			}()
		}
		close(start)
		wg.Wait()
		ctx.Count("ops:Parse", G)
	}

	// ---- phase A2: the inputs are adjacent sub-slices of one buffer (records of one read
	// buffer): plain slicing leaves each input spare capacity that belongs to its neighbour.
	// Seeded change C19-h (Parse widening NUL bytes in place, past the end of its input).
	{
		var big []byte
		type rng struct{ a, b int }
		var rs []rng
		for _, dd := range docs {
			rs = append(rs, rng{len(big), len(big) + len(dd)})
			big = append(big, dd...)
		}
		big = append(big, make([]byte, 64)...) // spare room after the last record too
		orig := append([]byte(nil), big...)
		var wg sync.WaitGroup
		start := make(chan struct{})
		fps := make([]string, len(rs))
		for i := range rs {
			i := i
			wg.Add(1)
			go func() {
				defer wg.Done()
				<-start
				ov := begin()
				b, r := cm.Parse(big[rs[i].a:rs[i].b])
				fps[i] = core.Fingerprint(b, r, core.FPOpts{})
				end(ov)
			}()
		}
		close(start)
		wg.Wait()
		for i := range rs {
			if fps[i] != seqFP[i] {
				fail("result_differs(Parse/adjacent)", "concurrent Parse of document %d, a sub-slice of a buffer shared with other inputs, differs from the sequential parse; input %s", i, core.Quote(docs[i]))
				break
			}
		}
		if !bytes.Equal(big, orig) {
			fail("buffer_modified", "Parse of sub-slices of one buffer changed bytes of the buffer (outside or inside its own input)")
		}
		ctx.Count("ops:Parse(adjacent sub-slices)", int64(len(rs)))
	}

	// ---- phase B: concurrent use of one shared tree
	{
		const G = 48
		var wg sync.WaitGroup
		start := make(chan struct{})
		opCounts := make([]int64, 9)
		for g := 0; g < G; g++ {
			gr := rnd.Fork()
			wg.Add(1)
			go func() {
				defer wg.Done()
				<-start
				for k := 0; k < 4; k++ {
					op := gr.Intn(9)
					ci := gr.Intn(len(cfgs))
					atomic.AddInt64(&opCounts[op], 1)
					ov := begin()
					switch op {
					case 0: // Render through the shared renderer value
						w := &yieldWriter{}
						if err := sharedRenderers[ci].Render(w, sBlocks); err != nil || !bytes.Equal(w.buf.Bytes(), seqRender[ci]) {
							fail("result_differs(Render/shared)", "concurrent Render through a shared *HTMLRenderer (%s) differs from the sequential output:\n concurrent: %s\n sequential: %s", cfgs[ci], core.Quote(w.buf.Bytes()), core.Quote(seqRender[ci]))
						}
					case 1: // Render through a private renderer
						out, err := core.Render(sBlocks, sRefs, cfgs[ci])
						if err != nil || !bytes.Equal(out, seqRender[ci]) {
							fail("result_differs(Render/private)", "concurrent Render (%s) differs from the sequential output:\n concurrent: %s\n sequential: %s", cfgs[ci], core.Quote(out), core.Quote(seqRender[ci]))
						}
					case 2: // AppendBlock through the shared renderer
						for bi, rb := range sBlocks {
							out := sharedRenderers[ci].AppendBlock(nil, rb)
							if !bytes.Equal(out, seqAppend[ci][bi]) {
								fail("result_differs(AppendBlock)", "concurrent AppendBlock (%s, block %d) differs: %s vs %s", cfgs[ci], bi, core.Quote(out), core.Quote(seqAppend[ci][bi]))
								break
							}
						}
					case 3: // Format
						w := &yieldWriter{}
						if err := format.Format(w, sBlocks); err != nil || !bytes.Equal(w.buf.Bytes(), seqFormat.Bytes()) {
							fail("result_differs(Format)", "concurrent Format differs from the sequential output")
						}
					case 4: // Walk
						if d := walkDigest(sBlocks, true); d != seqWalk {
							fail("result_differs(Walk)", "concurrent Walk observed a different event sequence")
						}
					case 5: // accessors
						if d := accessorDigest(sBlocks); d != seqAcc {
							fail("result_differs(accessors)", "concurrent accessor sweep differs")
						}
					case 6: // MatchReference + RenderHTML
						for _, kk := range keys {
							if !sRefs.MatchReference(kk) {
								fail("result_differs(MatchReference)", "key %q vanished", kk)
							}
						}
						var bb bytes.Buffer
						cm.RenderHTML(&bb, sBlocks, sRefs)
						if !bytes.Equal(bb.Bytes(), seqRender[0]) {
							fail("result_differs(RenderHTML)", "concurrent RenderHTML differs")
						}
					case 8: // Walk ended early by Post, with pruning
						ai := gr.Intn(len(seqAbort))
						if d := abortWalkDigest(sBlocks, 1+ai*3, true); d != seqAbort[ai] {
							fail("result_differs(Walk/aborted)", "concurrent Walk with pruning, ended by Post at event %d, observed a different event sequence", 1+ai*3)
						}
					case 7: // parse something else while others render
						di := gr.Intn(len(docs))
						own := append([]byte(nil), docs[di]...)
						b, r := cm.Parse(own)
						if core.Fingerprint(b, r, core.FPOpts{}) != seqFP[di] {
							fail("result_differs(Parse)", "Parse concurrent with rendering differs; input %s", core.Quote(docs[di]))
						}
					}
					end(ov)
				}
			}()
		}
		close(start)
		wg.Wait()
		names := []string{"Render/shared", "Render/private", "AppendBlock", "Format", "Walk", "accessors", "MatchReference+RenderHTML", "Parse-during-render", "Walk-aborted-by-Post"}
		for i, n := range opCounts {
			ctx.Count("ops:"+names[i], n)
		}
	}

	if fp := core.Fingerprint(sBlocks, sRefs, core.FPOpts{}); fp != treeFP {
		fail("tree_mutated", "the shared tree changed during concurrent rendering/formatting/walking")
	}
	ctx.Count("ops_total", opsTotal)
	ctx.Count("ops_overlapping", overlapping)
	ctx.Max("max_simultaneous_ops", maxRunning)
	if overlapping > 0 {
		ctx.NonTrivial()
	}
	if len(coldFailures) > 0 {
		ctx.Violation("result_differs(cold)", "operations run concurrently on a tree nothing had rendered yet differ from the sequential results computed afterwards: %v", coldFailures)
	}
	for _, f := range failures {
		i := indexByte(f, 0)
		ctx.Violation(f[:i], "%s", f[i+1:])
	}
}
