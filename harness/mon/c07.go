package mon

import (
	"bufio"
	"bytes"
	"fmt"
	"os"
	"path/filepath"
	"strings"
	"sync"

	"verif/core"
	"verif/gen"
	"verif/refimpl/htmltok"

	cm "zombiezen.com/go/commonmark"
)

// C07 — Without raw HTML, output is well-formed, fixed-vocabulary, fully escaped HTML.
type c07 struct{}

func init() {
	core.Register(c07{})
	assumptions["C07"] = []string{
		"the output is read the way a browser reads it (data-state tokenizer, DESIGN Appendix B); judged: element vocabulary, per-element attribute sets, proper nesting, no comment/doctype token, no '<' in text, every '&' in text and attribute values starts a well-formed character reference",
		"entity names come from a committed fixture generated from python3's html.entities.html5 table",
		"the renderer's exact spelling (one space before attributes, double quotes, no '>' in text) is recorded, not judged",
	}
}

func (c07) ID() string { return "C07" }
func (c07) Rule() string {
	return "per input: Render with IgnoreRaw=true x 3 soft-break modes, and with IgnoreRaw=false when the tree holds no HTMLBlock/HTMLTag/RawHTML node (FilterTag nil); the output must satisfy the judged conditions. Non-trivial: output has >= 1 attribute or >= 1 character reference; distinct by input hash"
}

func (c07) Plan(tier string) []core.Segment {
	return []core.Segment{
		{Gen: "spec", Count: gen.CorpusSize(), Exhaustive: true},
		{Gen: "inject", Count: scale(tier, 600_000, 12_000_000), Desc: "injection payloads placed into every attribute-bound position (destination, title, alt text, info string, autolink, definition, list start)"},
		{Gen: "soup", Profile: "inject", Count: scale(tier, 600_000, 12_000_000)},
		{Gen: "soup", Profile: "html", Count: scale(tier, 100_000, 4_000_000)},
		{Gen: "lines", Profile: "default", Count: scale(tier, 100_000, 4_000_000)},
		{Gen: "limits", Profile: "default", Count: scale(tier, 4_000, 100_000), Desc: "documents on numeric thresholds: 999-character labels, 9-digit list numbers, reference digit counts, scheme and domain lengths, line endings on the 8 KiB read window, indentation columns, long runs, deep nesting"},
		{Gen: "defsplit", Profile: "default", Count: scale(tier, 50_000, 2_000_000), Desc: "definition-like paragraphs cut into lines at every place, inside containers with space/tab/partly consumed tab prefixes and hostile bytes right after the prefix"},
		{Gen: "inlinex", Profile: "default", Count: scale(tier, 100_000, 3_000_000), Desc: "well-formed inline trees whose delimiter tokens were deleted, duplicated, moved, swapped or respelled: constructs crossing each other's boundaries"},
		{Gen: "modeldoc", Profile: "full", Count: scale(tier, 40_000, 2_000_000), Desc: "Markdown of model documents: nested containers, structural tabs, laziness, multi-line inline constructs"},
		{Gen: "modeldoc", Profile: "deep", Count: scale(tier, 4000, 200000), Desc: "Markdown of model documents: nested containers, structural tabs, laziness, multi-line inline constructs", Batch: 2000},
		{Gen: "lines", Profile: "hostile", Count: scale(tier, 50_000, 2_000_000)},
		{Gen: "specmut", Count: scale(tier, 100_000, 4_000_000)},
		{Gen: "small", Profile: "c07:5", Count: gen.Size("small", "c07:5"), Exhaustive: true},
		{Gen: "bigdoc", Count: scale(tier, 600, 20000), Desc: "8-40 KiB documents of many small blocks, also streamed with every block rewritten as soon as it is returned and rendered at the end", Batch: 50},
	}
}

func (c07) Directed() []core.Directed {
	return []core.Directed{
		d("![\" onerror=\"alert(1)](x)", "P2: attribute injection through alt text"),
		d("![](x)", "P3: no text in the description"),
		d("![&amp; &quot;](x \"t&quot;\")", "references in alt and title"),
		d("&#xGG; &#x41; &#65; &#0; &#99999999; &nosuch; &amp", "P4: reference recognition"),
		d("[a](%GG \"t\") <http://a.b/\"x> <a@b.c>", "destinations"),
		d("``` \"><script>\ncode\n```\n", "info string"),
		d("[a]: <x\"y> 'z\"'\n\n[a] ![a]\n", "definition"),
		d("123456789. a\n", "ordered list start"),
		d("<script>alert(1)</script>\n\nx <b> y <!-- c -->", "raw HTML (ignored)"),
		d("a < b > c & d \" e ' f", "text escaping"),
	}
}

func init() {
	gen.Alphabets["c07"] = []string{"![", "](", ")", "\"", "<", ">", "&", "#x", "G;", "a", " ", "`", "'"}
	payload := []string{"\"", "'", "\" onerror=\"alert(1)", "' onload='x", "javascript:alert(1)", "\"><script>alert(1)</script>", "<", ">", "&", "&#x3C;", "&#60;", "&lt;", "&quot;", "&#34;", "&#x22;", "%22", "%3C", "%", "%G", "&#xG;", "&#xGG;", "&#x110000;", "&#99999999;", "&;", "&#;", "&#x;", "&AMP;", "&amp", "&amp;amp;", "`", "=", " x=y", "\\\"", "\\<", "\\&", "\x00", "\xff", "é", "\n", "<b>", "</a>", "<!--", "&#X41;", "&#x00;", "&#0;", "&nosuch;", "&copy", "&copy;", "&#1234567;", "&#12345678;", "&#x1234567;", "*\"*", "[\"](u)", "![\"](u)", "`\"`", "<a@b.c>", "<http://x/\">"}
	slots := []string{
		"[a](%s)", "[a](<%s>)", "[a](/u \"%s\")", "[a](/u '%s')", "[a](/u (%s))", "![%s](/u)", "![a %s b](/u \"t\")", "![*%s*](/u)", "![[%s](v)](/u)", "![`%s`](u)", "![a][%s]\n\n[%s]: /u", "[%s]\n\n[%s]: /u 't'",
		"``` %s\ncode\n```", "~~~ a%s\ncode\n~~~", "<http://a.b/%s>", "<a%s@b.c>", "[k]: %s\n\n[k]", "[k]: /u \"%s\"\n\n[k] ![k]", "[k]: <%s> '%s'\n\n![k]", "%s", "# %s", "> %s", "- %s", "`%s`", "    %s", "*%s*", "1%s. a", "%s\n===",
	}
	gen.Register("inject", func(r *core.Rand, index uint64, profile string) ([]byte, string) {
		var sb strings.Builder
		n := r.Range(1, 3)
		for i := 0; i < n; i++ {
			slot := slots[r.Intn(len(slots))]
			var p strings.Builder
			for k := r.Range(1, 3); k > 0; k-- {
				p.WriteString(payload[r.Intn(len(payload))])
				if r.Intn(3) == 0 {
					p.WriteString([]string{"a", " ", "x y"}[r.Intn(3)])
				}
			}
			sb.WriteString(strings.ReplaceAll(slot, "%s", p.String()))
			sb.WriteString([]string{"\n", "\n\n", " "}[r.Intn(3)])
		}
		return []byte(sb.String()), "inject"
	})
}

var (
	entOnce  sync.Once
	entNames map[string]bool
)

func entityNames() map[string]bool {
	entOnce.Do(func() {
		entNames = map[string]bool{}
		f, err := os.Open(filepath.Join(gen.FixturesDir, "entities.txt"))
		if err != nil {
			panic(err)
		}
		defer f.Close()
		sc := bufio.NewScanner(f)
		for sc.Scan() {
			if s := strings.TrimSpace(sc.Text()); s != "" {
				entNames[s] = true
			}
		}
		if len(entNames) < 2000 {
			panic("entity fixture incomplete")
		}
	})
	return entNames
}

// badReference returns the first '&' in s that does not start a well-formed
// character reference, or -1.
func badReference(s string) int {
	for i := 0; i < len(s); i++ {
		if s[i] != '&' {
			continue
		}
		j := i + 1
		ok := false
		if j < len(s) && s[j] == '#' {
			j++
			if j < len(s) && (s[j] == 'x' || s[j] == 'X') {
				j++
				st := j
				for j < len(s) && (s[j] >= '0' && s[j] <= '9' || s[j] >= 'a' && s[j] <= 'f' || s[j] >= 'A' && s[j] <= 'F') {
					j++
				}
				ok = j-st >= 1 && j-st <= 6 && j < len(s) && s[j] == ';'
			} else {
				st := j
				for j < len(s) && s[j] >= '0' && s[j] <= '9' {
					j++
				}
				ok = j-st >= 1 && j-st <= 7 && j < len(s) && s[j] == ';'
			}
		} else {
			st := j
			for j < len(s) && (s[j] >= '0' && s[j] <= '9' || s[j] >= 'a' && s[j] <= 'z' || s[j] >= 'A' && s[j] <= 'Z') {
				j++
			}
			ok = j > st && j < len(s) && s[j] == ';' && entityNames()[s[st:j]]
		}
		if !ok {
			return i
		}
		i = j
	}
	return -1
}

var c07Elements = map[string]map[string]bool{
	"p": {}, "h1": {}, "h2": {}, "h3": {}, "h4": {}, "h5": {}, "h6": {}, "pre": {}, "code": {"class": true}, "blockquote": {},
	"ol": {"start": true}, "ul": {}, "li": {}, "em": {}, "strong": {}, "a": {"href": true, "title": true},
	"hr": {}, "br": {}, "img": {"src": true, "title": true, "alt": true},
}
var c07Void = map[string]bool{"hr": true, "br": true, "img": true}

// checkSafeHTML applies the judged conditions of C07 to one output.
func checkSafeHTML(out []byte) (code, msg string) {
	s := string(out)
	var stack []string
	for _, t := range htmltok.Tokenize(s) {
		switch t.Kind {
		case htmltok.Comment, htmltok.Doctype:
			return "comment_or_doctype", fmt.Sprintf("a %s token at byte %d", t.Kind, t.Start)
		case htmltok.Text:
			if i := strings.IndexByte(t.Data, '<'); i >= 0 {
				return "text_lt", fmt.Sprintf("text contains '<' at byte %d", t.Start+i)
			}
			if i := badReference(t.Data); i >= 0 {
				return "bad_reference", fmt.Sprintf("'&' at byte %d of the output does not start a well-formed character reference: %q", t.Start+i, clipStr(t.Data[i:], 24))
			}
		case htmltok.StartTag:
			attrs, ok := c07Elements[t.Name]
			if !ok {
				return "element", fmt.Sprintf("start tag <%s> at byte %d is outside the renderer's element set", t.Name, t.Start)
			}
			seen := map[string]bool{}
			for _, a := range t.Attrs {
				if !attrs[a.Name] || seen[a.Name] {
					return "attribute", fmt.Sprintf("<%s> at byte %d has attribute %q, outside its attribute set", t.Name, t.Start, a.Name)
				}
				seen[a.Name] = true
				if i := badReference(a.Value); i >= 0 {
					return "bad_reference", fmt.Sprintf("attribute %s of <%s>: '&' does not start a well-formed character reference: %q", a.Name, t.Name, clipStr(a.Value[i:], 24))
				}
			}
			if !c07Void[t.Name] {
				stack = append(stack, t.Name)
			}
		case htmltok.EndTag:
			if _, ok := c07Elements[t.Name]; !ok {
				return "element", fmt.Sprintf("end tag </%s> at byte %d is outside the renderer's element set", t.Name, t.Start)
			}
			if c07Void[t.Name] || len(stack) == 0 || stack[len(stack)-1] != t.Name {
				top := "nothing"
				if len(stack) > 0 {
					top = "<" + stack[len(stack)-1] + ">"
				}
				return "nesting", fmt.Sprintf("end tag </%s> at byte %d while %s is open", t.Name, t.Start, top)
			}
			stack = stack[:len(stack)-1]
		}
	}
	if len(stack) > 0 {
		return "unclosed", fmt.Sprintf("<%s> is still open at the end of the output", stack[len(stack)-1])
	}
	return "", ""
}

func clipStr(s string, n int) string {
	if len(s) > n {
		return s[:n]
	}
	return s
}

func hasRawNode(blocks []*cm.RootBlock) bool {
	found := false
	for _, rb := range blocks {
		core.WalkTree(rb.AsNode(), func(n, _ cm.Node, _, _ int) {
			if b := n.Block(); b != nil && b.Kind() == cm.HTMLBlockKind {
				found = true
			}
			if in := n.Inline(); in != nil && (in.Kind() == cm.HTMLTagKind || in.Kind() == cm.RawHTMLKind) {
				found = true
			}
		})
	}
	return found
}

func (c07) Check(ctx *core.Ctx, c *core.Case) {
	blocks, refs, _ := core.ParseCopy(c.Input)
	cfgs := []core.RenderCfg{
		{Soft: cm.SoftBreakPreserve, IgnoreRaw: true},
		{Soft: cm.SoftBreakSpace, IgnoreRaw: true},
		{Soft: cm.SoftBreakHarden, IgnoreRaw: true},
	}
	if !hasRawNode(blocks) {
		cfgs = append(cfgs, core.RenderCfg{Soft: cm.SoftBreakPreserve}, core.RenderCfg{Soft: cm.SoftBreakHarden})
		ctx.Inc("docs_without_raw_html")
	}
	if ctx.Verbose {
		ctx.Log("%s", core.DumpBlocks(blocks, refs))
	}
	// The property names no entry point. Large documents (and every 8th small one) are also read
	// block by block, each block rewritten as soon as it is returned (the reference map of the
	// in-memory parse is the matcher), all blocks kept and rendered at the end: what an
	// earlier block shows must not depend on what the parser read later (seeded change C07-k: a
	// read buffer recycled under blocks already handed out).
	type variant struct {
		blocks []*cm.RootBlock
		who    string
	}
	variants := []variant{{blocks, "parse"}}
	if len(c.Input) >= 8192 || c.Seed%8 == 0 {
		p := cm.NewBlockParser(bytes.NewReader(append([]byte(nil), c.Input...)))
		ip := &cm.InlineParser{ReferenceMatcher: refs}
		var sb []*cm.RootBlock
		for {
			rb, err := p.NextBlock()
			if err != nil || rb == nil {
				break
			}
			ip.Rewrite(rb)
			sb = append(sb, rb)
		}
		variants = append(variants, variant{sb, "stream+rewrite-as-you-go"})
		ctx.Inc("docs_also_streamed_and_rewritten_block_by_block")
	}
	for _, cfg := range cfgs {
		for _, v := range variants {
			out, _ := core.Render(v.blocks, refs, cfg)
			if ctx.Verbose {
				ctx.Log("%s/%s: %s", cfg, v.who, core.Quote(out))
			}
			code, msg := checkSafeHTML(out)
			if code != "" {
				ctx.Violation(code, "%s/%s: %s\n output: %s", cfg, v.who, msg, core.Quote(out))
				return
			}
			ctx.Inc("outputs_checked")
			ctx.Count("output_bytes", int64(len(out)))
			s := string(out)
			if strings.Contains(s, "=\"") || strings.Contains(s, "&") {
				ctx.NonTrivial()
			}
			// recorded, not judged: the renderer's strict output language
			for _, t := range htmltok.Tokenize(s) {
				if t.Kind == htmltok.Text && strings.IndexByte(t.Data, '>') >= 0 {
					ctx.Record("strict_syntax:gt_in_text", "%s", core.Quote(c.Input))
				}
				if t.Kind == htmltok.StartTag {
					ctx.Inc("start_tags_seen")
					for _, a := range t.Attrs {
						ctx.Inc("attr:" + t.Name + "." + a.Name)
						if a.Quote != '"' {
							ctx.Record("strict_syntax:attribute_not_double_quoted", "%s", core.Quote(c.Input))
						}
					}
				}
			}
		}
	}
}
