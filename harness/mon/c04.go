package mon

import (
	"bytes"
	"io"
	"unicode/utf8"

	"verif/core"
	"verif/gen"

	cm "zombiezen.com/go/commonmark"
	"zombiezen.com/go/commonmark/format"
)

// C04 — Parsing, rendering, formatting and walking are total.
//
// Panics are caught by the worker (runCase) and reported with code "panic";
// child death and CPU budget overruns are detected by the parent (run.go) and
// reported with codes "death" / "cpu_budget".
type c04 struct{}

func init() {
	core.Register(c04{})
	assumptions["C04"] = []string{
		"'does not loop forever' is restated as bounded progress: each case returns within a CPU-time budget (120 s up to 16 KiB, 300 s above), measured as child-process CPU time, re-run alone with 4x budget before being reported",
		"streaming must end in exactly io.EOF for inputs below 340 KiB (the documented 1 MiB block limit cannot be reached); above that only 'returns without panic' is judged",
	}
}

func (c04) ID() string { return "C04" }
func (c04) Rule() string {
	return "per input: Parse; streaming under 3 schedules then Rewrite with nil matcher and with the extracted map; Render under sampled configurations (all 42 on every 8th case); AppendBlock per block; Format to bytes.Buffer and to a plain io.Writer; Walk with default/nil callbacks; every accessor on every node. Non-trivial: input is not valid UTF-8, or has NUL/CR, or ends inside an open construct (no final line ending), or tree depth >= 8, or >= 1 KiB; distinct by input hash"
}

func (c04) Plan(tier string) []core.Segment {
	segs := []core.Segment{
		{Gen: "spec", Count: gen.CorpusSize(), Exhaustive: true, Desc: "spec 0.30 examples + repo fuzz seeds"},
		{Gen: "specprefix", Count: gen.PrefixCount(), Exhaustive: true, Desc: "every prefix of every corpus document (end of input inside every construct)"},
		{Gen: "lines", Profile: "default", Count: scale(tier, 400_000, 5_000_000)},
		{Gen: "limits", Profile: "default", Count: scale(tier, 4_000, 100_000), Desc: "documents on numeric thresholds: 999-character labels, 9-digit list numbers, reference digit counts, scheme and domain lengths, line endings on the 8 KiB read window, indentation columns, long runs, deep nesting"},
		{Gen: "defsplit", Profile: "default", Count: scale(tier, 150_000, 2_000_000), Desc: "definition-like paragraphs cut into lines at every place, inside containers with space/tab/partly consumed tab prefixes and hostile bytes right after the prefix"},
		{Gen: "inlinex", Profile: "default", Count: scale(tier, 200_000, 2_500_000), Desc: "well-formed inline trees whose delimiter tokens were deleted, duplicated, moved, swapped or respelled: constructs crossing each other's boundaries"},
		{Gen: "modeldoc", Profile: "full", Count: scale(tier, 40_000, 600_000), Desc: "Markdown of model documents: nested containers, structural tabs, laziness, multi-line inline constructs"},
		{Gen: "modeldoc", Profile: "deep", Count: scale(tier, 4000, 60000), Desc: "Markdown of model documents: nested containers, structural tabs, laziness, multi-line inline constructs", Batch: 2000},
		{Gen: "lines", Profile: "hostile", Count: scale(tier, 150_000, 1_500_000)},
		{Gen: "soup", Profile: "default", Count: scale(tier, 300_000, 4_000_000)},
		{Gen: "soup", Profile: "inline", Count: scale(tier, 150_000, 2_000_000)},
		{Gen: "specmut", Count: scale(tier, 200_000, 2_500_000)},
		{Gen: "patho", Count: gen.PathoCount(), Exhaustive: true, Desc: "pathological templates x sizes up to 16 KiB"},
		{Gen: "small", Profile: "c02:5", Count: gen.Size("small", "c02:5"), Exhaustive: true},
	}
	segs = append(segs,
		core.Segment{Gen: "soup", Profile: "hostile", Count: scale(tier, 150_000, 2_000_000), Desc: "more hostile soup (NUL, CR, invalid UTF-8)"},
		core.Segment{Gen: "soup", Profile: "html", Count: scale(tier, 100_000, 1_500_000), Desc: "HTML-heavy soup (filterRaw scanner, HTML block conditions)"},
		core.Segment{Gen: "soup", Profile: "inject", Count: scale(tier, 50_000, 700_000)},
		core.Segment{Gen: "soup", Profile: "crnul", Count: scale(tier, 50_000, 700_000)},
		core.Segment{Gen: "small", Profile: "c17:5", Count: gen.Size("small", "c17:5"), Exhaustive: true, Desc: "all strings <= 5 symbols over the raw-HTML alphabet"},
		core.Segment{Gen: "small", Profile: "c14:5", Count: gen.Size("small", "c14:5"), Exhaustive: true},
		core.Segment{Gen: "small", Profile: c04small(tier), Count: gen.Size("small", c04small(tier)), Exhaustive: true, Desc: "all strings <= 4 (quick) / 5 (thorough) symbols over {backtick, ~, backslash, SP, a, LF, [, ], (, ), <, >, double quote, &, -, TAB}: unterminated constructs at end of input"},
		core.Segment{Gen: "bigdoc", Count: scale(tier, 600, 6000), Desc: "8-40 KiB documents of many small blocks", Batch: 50},
		core.Segment{Gen: "prose", Count: scale(tier, 12, 120), Desc: "prose-like documents 8 KiB .. 2 MiB", Batch: 1},
		core.Segment{Gen: "hugeblock", Count: gen.Size("hugeblock", ""), Exhaustive: true, Desc: "single root blocks around and above the streaming block-size limit (1 MiB buffer, NUL counted three times): totality only", Batch: 1},
	)
	if tier == "thorough" {
		segs = append(segs,
			core.Segment{Gen: "lines", Profile: "hostile", Count: 400_000, Race: true, Desc: "sanitizer pass: -race build (implies checkptr)", Batch: 5000},
			core.Segment{Gen: "soup", Profile: "hostile", Count: 400_000, Race: true, Desc: "sanitizer pass: -race build (implies checkptr)", Batch: 5000},
			core.Segment{Gen: "specprefix", Count: gen.PrefixCount(), Exhaustive: true, Race: true, Desc: "sanitizer pass over every spec prefix", Batch: 2000},
		)
	}
	return segs
}

func c04small(tier string) string {
	if tier == "thorough" {
		return "c04:5"
	}
	return "c04:4"
}

func (c04) Directed() []core.Directed {
	return append(treeDirected(),
		d("``", "changelog: document ending in backticks"),
		d("`", "single backtick"),
		d("```", "unterminated fence at EOF"),
		d("<", "lone <"), d("<!--", "unterminated comment"), d("<a", "unterminated tag"), d("<![CDATA[", "unterminated CDATA"),
		d("[", "lone ["), d("![", "image opener at EOF"), d("[a](", "unterminated inline link"), d("[a]: ", "unterminated definition"),
		d("\xff\xfe\x00\r", "invalid UTF-8 + NUL + CR"),
		d("<http://a>", "autolink"), d("<>", "empty angle"), d("<a:>", "minimal autolink"),
		d("- \n- \n", "empty items"), d(">", "empty quote"), d("1.", "marker only"), d("#", "hash only"),
		d("\t", "tab only"), d("    ", "indent only"), d("&", "amp"), d("&#", "numeric ref start"), d("\\", "lone backslash"),
	)
}

type plainWriter struct{ n int }

func (w *plainWriter) Write(p []byte) (int, error) { w.n += len(p); return len(p), nil }

func (c04) Check(ctx *core.Ctx, c *core.Case) {
	b := c.Input
	rnd := core.NewRand(c.Seed)
	big := len(b) > 64*1024

	blocks, refs, _ := core.ParseCopy(b)
	ctx.Inc("op:Parse")

	// streaming
	scheds := []int{0, 1, 4 + rnd.Intn(6)}
	if big {
		scheds = []int{0, 10}
	}
	for _, sid := range scheds {
		_, chunk, zeros, eofData := scheduleChunk(sid, rnd, b)
		sr := &SchedReader{Data: b, Chunk: chunk, Zeros: zeros, EOFWithData: eofData, FailAt: -1}
		p := cm.NewBlockParser(sr)
		var sblocks []*cm.RootBlock
		var err error
		for {
			var rb *cm.RootBlock
			rb, err = p.NextBlock()
			if err != nil {
				break
			}
			if rb == nil {
				ctx.Violation("stream_error", "NextBlock returned (nil, nil)")
				return
			}
			sblocks = append(sblocks, rb)
			if len(sblocks) > len(b)+8 {
				ctx.Violation("stream_error", "NextBlock keeps returning blocks: more blocks than input bytes")
				return
			}
		}
		ctx.Inc("op:NextBlock-to-end")
		if err != io.EOF {
			if len(b) < 340*1024 {
				ctx.Violation("stream_error", "streaming a %d-byte input with a healthy reader ended in %v, not io.EOF", len(b), err)
				return
			}
			ctx.Inc("stream_non_eof_above_limit")
		}
		// Rewrite with nil matcher
		if sid == 0 {
			ip := &cm.InlineParser{}
			for _, rb := range sblocks {
				ip.Rewrite(rb)
			}
			ctx.Inc("op:Rewrite(nil matcher)")
			touchAll(ctx, sblocks)
		} else {
			m := cm.ReferenceMap{}
			for _, rb := range sblocks {
				m.Extract(rb.Source, rb.AsNode())
			}
			ip := &cm.InlineParser{ReferenceMatcher: m}
			for _, rb := range sblocks {
				ip.Rewrite(rb)
			}
			ctx.Inc("op:Extract+Rewrite")
			if sid == 1 {
				out, err := core.Render(sblocks, m, core.RenderCfg{})
				if err != nil {
					ctx.Violation("render_error", "Render of streamed blocks returned %v", err)
				}
				_ = out
			}
		}
	}

	// accessors on every node
	touchAll(ctx, blocks)

	// rendering
	cfgs := allRenderConfigs()
	var pick []core.RenderCfg
	if c.Seed%8 == 0 && !big {
		pick = cfgs
		ctx.Inc("cases_with_all_configs")
	} else {
		n := 6
		if big {
			n = 2
		}
		for i := 0; i < n; i++ {
			pick = append(pick, cfgs[rnd.Intn(len(cfgs))])
		}
	}
	for _, cfg := range pick {
		_, err := core.Render(blocks, refs, cfg)
		if err != nil {
			ctx.Violation("render_error", "Render (%s) to a bytes.Buffer returned %v", cfg, err)
			return
		}
		ctx.Inc("render_cfg:" + cfg.String())
	}
	ctx.Inc("op:Render")
	{
		pw := &plainWriter{}
		if err := cm.RenderHTML(pw, blocks, refs); err != nil {
			ctx.Violation("render_error", "RenderHTML to a healthy writer returned %v", err)
			return
		}
		cfg := cfgs[rnd.Intn(len(cfgs))]
		r := cfg.Renderer(refs)
		var dst []byte
		for _, rb := range blocks {
			dst = r.AppendBlock(dst[:0], rb)
		}
		ctx.Inc("op:AppendBlock")
	}

	// formatting
	{
		var fb bytes.Buffer
		if err := format.Format(&fb, blocks); err != nil {
			ctx.Violation("format_error", "Format to a bytes.Buffer returned %v", err)
			return
		}
		pw := &plainWriter{}
		if err := format.Format(pw, blocks); err != nil {
			ctx.Violation("format_error", "Format to a plain io.Writer returned %v", err)
			return
		}
		if pw.n != fb.Len() {
			ctx.Record("format_len_differs_by_writer", "%s", core.Quote(b))
		}
		ctx.Inc("op:Format")
	}

	// walking
	for _, rb := range blocks {
		n := 0
		cm.Walk(rb.AsNode(), &cm.WalkOptions{
			Pre:  func(cur *cm.Cursor) bool { n++; return true },
			Post: func(cur *cm.Cursor) bool { n++; return true },
		})
		cm.Walk(rb.AsNode(), &cm.WalkOptions{Post: func(cur *cm.Cursor) bool { n++; return true }})
		cm.Walk(rb.AsNode(), &cm.WalkOptions{Pre: func(cur *cm.Cursor) bool { n++; return true }})
		cm.Walk(rb.AsNode(), &cm.WalkOptions{})
		ctx.Count("walk_events", int64(n))
	}
	ctx.Inc("op:Walk")

	st := core.Stats(blocks)
	ctx.Max("max_tree_depth", int64(st.MaxDepth))
	ctx.Max("max_nodes", int64(st.Nodes))
	endsOpen := len(b) > 0 && b[len(b)-1] != '\n' && b[len(b)-1] != '\r'
	if !utf8.Valid(b) || hasNUL(b) || hasCR(b) || endsOpen || st.MaxDepth >= 8 || len(b) >= 1024 {
		ctx.NonTrivial()
	}
	if !utf8.Valid(b) {
		ctx.Inc("inputs_invalid_utf8")
	}
	if hasNUL(b) {
		ctx.Inc("inputs_with_nul")
	}
}

// touchAll calls every public accessor on every node.
func touchAll(ctx *core.Ctx, blocks []*cm.RootBlock) {
	n := 0
	for _, rb := range blocks {
		src := rb.Source
		core.WalkTree(rb.AsNode(), func(nd, _ cm.Node, _, _ int) {
			n++
			_ = nd.Span()
			if bl := nd.Block(); bl != nil {
				_ = bl.Kind()
				_ = bl.HeadingLevel()
				_ = bl.IsOrderedList()
				_ = bl.IsTightList()
				_ = bl.ListItemNumber(src)
				if is := bl.InfoString(); is != nil {
					_ = is.Text(src)
				}
			} else if in := nd.Inline(); in != nil {
				_ = in.Kind()
				_ = in.IndentWidth()
				_ = in.Text(src)
				_ = in.LinkReference()
				if dd := in.LinkDestination(); dd != nil {
					_ = dd.Text(src)
				}
				if t := in.LinkTitle(); t != nil {
					_ = t.Text(src)
				}
			}
		})
	}
	ctx.Count("nodes_touched", int64(n))
}
