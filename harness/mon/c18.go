package mon

import (
	"fmt"

	"verif/core"
	"verif/gen"

	cm "zombiezen.com/go/commonmark"
)

// C18 — Walk visits every node once, in order, honouring pruning and abort.
type c18 struct{}

func init() {
	core.Register(c18{})
	assumptions["C18"] = []string{
		"the oracle is a recursive reference traversal parameterised by the same policy (prune set, abort point, nil callbacks, child functions); the recorded event list must equal the expected list exactly",
		"cursor fields are copied out inside the callback (the cursor is reused by Walk)",
	}
}

func (c18) ID() string { return "C18" }
func (c18) Rule() string {
	return "per parsed tree: 16 (quick) / 200 (thorough) seeded callback policies = prune rate {0,10,50,100}% x abort point {never, j-th Post} x nil Pre/Post x child functions {default, virtual root over all root blocks, every-second-child view, reversed view, ChildCount-only override}; events recorded in the callbacks are compared with a reference traversal; cursor invariants asserted at every event. Non-trivial: tree >= 10 nodes and the policy prunes or aborts; distinct by input hash"
}

func (c18) Plan(tier string) []core.Segment {
	return []core.Segment{
		{Gen: "spec", Count: gen.CorpusSize(), Exhaustive: true},
		{Gen: "lines", Profile: "default", Count: scale(tier, 200_000, 1_200_000)},
		{Gen: "limits", Profile: "default", Count: scale(tier, 2_000, 50_000), Desc: "documents on numeric thresholds: 999-character labels, 9-digit list numbers, reference digit counts, scheme and domain lengths, line endings on the 8 KiB read window, indentation columns, long runs, deep nesting"},
		{Gen: "inlinex", Profile: "default", Count: scale(tier, 50_000, 1_000_000), Desc: "well-formed inline trees whose delimiter tokens were deleted, duplicated, moved, swapped or respelled: constructs crossing each other's boundaries"},
		{Gen: "modeldoc", Profile: "full", Count: scale(tier, 20_000, 600_000), Desc: "Markdown of model documents: nested containers, structural tabs, laziness, multi-line inline constructs"},
		{Gen: "modeldoc", Profile: "deep", Count: scale(tier, 2000, 60000), Desc: "Markdown of model documents: nested containers, structural tabs, laziness, multi-line inline constructs", Batch: 2000},
		{Gen: "soup", Profile: "default", Count: scale(tier, 120_000, 800_000)},
		{Gen: "soup", Profile: "inline", Count: scale(tier, 90_000, 600_000)},
		{Gen: "specmut", Count: scale(tier, 120_000, 800_000)},
		{Gen: "patho", Count: gen.PathoCount(), Exhaustive: true, Desc: "deep trees (nesting to depth 2000+)", Batch: 8},
	}
}

func (c18) Directed() []core.Directed {
	return append(treeDirected(),
		d("", "empty document (virtual root without children)"),
		d("a", "single paragraph"),
		d("> > > - a\n> > >   - b\n> > >\n> > >     c\n", "nested containers"),
	)
}

type walkEvent struct {
	post   bool
	node   cm.Node
	parent cm.Node
	block  *cm.Block
	index  int
}

func (e walkEvent) String() string {
	t := "Pre"
	if e.post {
		t = "Post"
	}
	sp := e.node.Span()
	return fmt.Sprintf("%s %s[%d,%d) parent=%s index=%d block=%s", t, core.KindName(e.node), sp.Start, sp.End, core.KindName(e.parent), e.index, e.block.Kind())
}

type walkPolicy struct {
	seed      uint64
	prunePct  int
	abortAt   int // index among Post events; <0 never
	preNil    bool
	postNil   bool
	childMode int
}

func (p walkPolicy) String() string {
	return fmt.Sprintf("prune=%d%% abortAt=%d preNil=%v postNil=%v childMode=%d", p.prunePct, p.abortAt, p.preNil, p.postNil, p.childMode)
}

const (
	childDefault = iota
	childVirtualRoot
	childEverySecond
	childReversed
	childCountOnly
	numChildModes
)

func (c18) Check(ctx *core.Ctx, c *core.Case) {
	blocks, _, _ := core.ParseCopy(c.Input)
	rnd := core.NewRand(c.Seed)
	st := core.Stats(blocks)
	nPolicies := 16
	if ctx.Tier == "thorough" {
		nPolicies = 200
	}
	if st.Nodes > 20000 {
		nPolicies = 4
	}
	for pi := 0; pi < nPolicies; pi++ {
		pol := walkPolicy{seed: rnd.U64(), prunePct: []int{0, 0, 10, 50, 100}[rnd.Intn(5)], abortAt: -1, childMode: rnd.Intn(numChildModes)}
		if pi < numChildModes {
			pol.childMode = pi // every mode at least once per tree
		}
		switch rnd.Intn(8) {
		case 0:
			pol.preNil = true
		case 1:
			pol.postNil = true
		case 2:
			pol.preNil, pol.postNil = true, true
		}
		if rnd.Intn(3) == 0 {
			pol.abortAt = rnd.Intn(st.Nodes + 1)
			if rnd.Bool() && st.Nodes > 8 {
				pol.abortAt = rnd.Intn(8)
			}
		}
		if !checkWalk(ctx, blocks, pol) {
			return
		}
		ctx.Inc(fmt.Sprintf("policy:childMode=%d", pol.childMode))
		if st.Nodes >= 10 && (pol.abortAt >= 0 || (pol.prunePct > 0 && !pol.preNil)) {
			ctx.NonTrivial()
		}
	}
	ctx.Max("max_nodes", int64(st.Nodes))
	ctx.Max("max_depth", int64(st.MaxDepth))
}

func checkWalk(ctx *core.Ctx, blocks []*cm.RootBlock, pol walkPolicy) bool {
	// child functions in force
	var ccFn func(cm.Node) int
	var chFn func(cm.Node, int) cm.Node
	switch pol.childMode {
	case childVirtualRoot:
		ccFn = func(n cm.Node) int {
			if n == (cm.Node{}) {
				return len(blocks)
			}
			return n.ChildCount()
		}
		chFn = func(n cm.Node, i int) cm.Node {
			if n == (cm.Node{}) {
				return blocks[i].AsNode()
			}
			return n.Child(i)
		}
	case childEverySecond:
		ccFn = func(n cm.Node) int { return (n.ChildCount() + 1) / 2 }
		chFn = func(n cm.Node, i int) cm.Node { return n.Child(2 * i) }
	case childReversed:
		ccFn = func(n cm.Node) int { return n.ChildCount() }
		chFn = func(n cm.Node, i int) cm.Node { return n.Child(n.ChildCount() - 1 - i) }
	case childCountOnly:
		ccFn = func(n cm.Node) int {
			if k := n.ChildCount(); k > 2 {
				return 2
			} else {
				return k
			}
		}
	}
	effCC := cm.Node.ChildCount
	if ccFn != nil {
		effCC = ccFn
	}
	effCh := cm.Node.Child
	if chFn != nil {
		effCh = chFn
	}

	var roots []cm.Node
	if pol.childMode == childVirtualRoot {
		roots = []cm.Node{{}}
	} else {
		for _, rb := range blocks {
			roots = append(roots, rb.AsNode())
		}
		// walks that start at an inner node (a block or an inline with children): such a root
		// has no parent and a negative index either, and what encloses it is unknown to Walk
		var inner []cm.Node
		for _, rb := range blocks {
			core.WalkTree(rb.AsNode(), func(n, parent cm.Node, depth, _ int) {
				if depth > 0 && n.ChildCount() > 0 {
					inner = append(inner, n)
				}
			})
		}
		for k := 0; k < 2 && len(inner) > 0; k++ {
			roots = append(roots, inner[int(core.Mix(pol.seed, 0x1ee7, uint64(k))%uint64(len(inner)))])
			ctx.Inc("walks_started_at_an_inner_node")
		}
	}
	for _, root := range roots {
		// --- reference traversal
		var want []walkEvent
		preCount, postCount := 0, 0
		prune := func(num int) bool {
			return pol.prunePct > 0 && int(core.Mix(pol.seed, uint64(num))%100) < pol.prunePct
		}
		var visit func(n, parent cm.Node, block *cm.Block, index int) bool
		visit = func(n, parent cm.Node, block *cm.Block, index int) bool {
			if !pol.preNil {
				want = append(want, walkEvent{false, n, parent, block, index})
				num := preCount
				preCount++
				if prune(num) {
					return true
				}
			}
			childBlock := block
			if b := n.Block(); b != nil {
				childBlock = b
			}
			for i, k := 0, effCC(n); i < k; i++ {
				if !visit(effCh(n, i), n, childBlock, i) {
					return false
				}
			}
			if !pol.postNil {
				want = append(want, walkEvent{true, n, parent, block, index})
				num := postCount
				postCount++
				if num == pol.abortAt {
					return false
				}
			}
			return true
		}
		visit(root, cm.Node{}, nil, -1)

		// --- real execution, events recorded inside the callbacks
		var got []walkEvent
		gotPre, gotPost := 0, 0
		seenPre := map[cm.Node]bool{}
		var cursorFail string
		record := func(post bool, cur *cm.Cursor) {
			ev := walkEvent{post, cur.Node(), cur.Parent(), cur.ParentBlock(), cur.Index()}
			got = append(got, ev)
			if cursorFail != "" {
				return
			}
			if ev.parent == (cm.Node{}) && ev.node == root {
				if ev.index >= 0 {
					cursorFail = fmt.Sprintf("cursor_root: root visited with index %d (want negative)", ev.index)
				}
				if ev.block != nil {
					cursorFail = "cursor_root: root has a ParentBlock"
				}
			} else {
				if ev.index < 0 || ev.index >= effCC(ev.parent) || effCh(ev.parent, ev.index) != ev.node {
					cursorFail = fmt.Sprintf("cursor_child: at %s: Parent().Child(Index()) != Node()", ev)
				}
			}
			if !post {
				if seenPre[ev.node] && pol.childMode != childEverySecond && pol.childMode != childReversed {
					cursorFail = fmt.Sprintf("double_pre: %s received a second Pre", ev)
				}
				seenPre[ev.node] = true
			}
		}
		opts := &cm.WalkOptions{ChildCount: ccFn, Child: chFn}
		if !pol.preNil {
			opts.Pre = func(cur *cm.Cursor) bool {
				record(false, cur)
				num := gotPre
				gotPre++
				return !prune(num)
			}
		}
		if !pol.postNil {
			opts.Post = func(cur *cm.Cursor) bool {
				record(true, cur)
				num := gotPost
				gotPost++
				return num != pol.abortAt
			}
		}
		cm.Walk(root, opts)
		ctx.Count("events_recorded", int64(len(got)))
		if pol.abortAt >= 0 && postCount > pol.abortAt {
			ctx.Inc("aborts_exercised")
		}

		// --- offline comparison
		for i := 0; i < len(got) || i < len(want); i++ {
			if i >= len(want) {
				code := "event_mismatch"
				if pol.abortAt >= 0 && postCount > pol.abortAt {
					code = "after_abort"
				}
				ctx.Violation(code, "policy {%s}: extra event %d: %s (expected the walk to have %d events)", pol, i, got[i], len(want))
				return false
			}
			if i >= len(got) {
				ctx.Violation("event_mismatch", "policy {%s}: walk stopped after %d events, expected event %d: %s", pol, len(got), i, want[i])
				return false
			}
			g, w := got[i], want[i]
			if g.post != w.post || g.node != w.node {
				ctx.Violation("event_mismatch", "policy {%s}: event %d is %s, expected %s", pol, i, g, w)
				return false
			}
			if g.parent != w.parent || g.index != w.index {
				ctx.Violation("cursor_child", "policy {%s}: event %d is %s, expected %s", pol, i, g, w)
				return false
			}
			if g.block != w.block {
				ctx.Violation("cursor_block", "policy {%s}: event %d: ParentBlock is %s, expected the nearest enclosing block %s: %s", pol, i, g.block.Kind(), w.block.Kind(), g)
				return false
			}
		}
		if cursorFail != "" {
			code := cursorFail[:indexByte(cursorFail, ':')]
			ctx.Violation(code, "policy {%s}: %s", pol, cursorFail)
			return false
		}
	}
	return true
}

func indexByte(s string, c byte) int {
	for i := 0; i < len(s); i++ {
		if s[i] == c {
			return i
		}
	}
	return len(s)
}
