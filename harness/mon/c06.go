package mon

import (
	"bytes"
	"fmt"
	"html"
	"os"
	"sort"
	"strings"

	"verif/core"
	"verif/gen"
	"verif/model"
	"verif/refimpl/htmltok"

	cm "zombiezen.com/go/commonmark"
)

// C06 — Canonical documents render to exactly the HTML they denote.
type c06 struct{}

func init() {
	core.Register(c06{})
	assumptions["C06"] = []string{
		"the oracle is the document model (harness/model): abstract documents are serialised using only spellings whose meaning is fixed by the 0.30 spec text, and the expected HTML is produced by structural recursion over the abstract document; the model was calibrated at development time against goldmark, an independent CommonMark implementation (tools/modelcal), with every disagreement resolved by reading the spec",
		"comparison is on HTML tokens (my data-state tokenizer): character references decoded, attributes compared as sets, whitespace-only text next to block-level tags dropped outside <pre>; CRLF variants are compared with CR removed",
		"escape_all and code_verbatim sub-monitors have trivial oracles (the text itself)",
	}
}

func (c06) ID() string { return "C06" }
func (c06) Rule() string {
	return "model documents (abstract document -> CommonMark serialisation with random legal spelling choices -> expected HTML), escape_all texts (every ASCII punctuation backslash-escaped, bare / quoted / in a list item) and code_verbatim blocks (fenced and indented, bare and in containers, LF and CRLF). Non-trivial: >= 2 container levels, or >= 3 distinct block kinds, or an inline construct spanning a line (model); any (escape_all, code_verbatim); distinct by input hash"
}

func (c06) Plan(tier string) []core.Segment {
	return []core.Segment{
		{Gen: "model", Profile: "full", Count: scale(tier, 600_000, 20_000_000), Desc: "abstract documents, all serializer choices"},
		{Gen: "model", Profile: "deep", Count: scale(tier, 60_000, 2_000_000), Desc: "larger abstract documents (up to 160 nodes, 12 top-level blocks, containers nested 6 deep)", Batch: 2000},
		{Gen: "escapeall", Count: scale(tier, 200_000, 10_000_000)},
		{Gen: "codeverbatim", Count: scale(tier, 100_000, 5_000_000)},
	}
}

func (c06) Directed() []core.Directed { return nil }
func (c06) NoMinimise() bool          { return true }

// modelDocs caches the expected HTML of generated documents: the generator
// returns only the markdown, so the monitor regenerates the document from the
// case's (seed, index) to obtain the expectation.
func init() {
	gen.Register("model", func(r *core.Rand, index uint64, profile string) ([]byte, string) {
		prof := model.Profile{Canonical: strings.HasPrefix(profile, "fmt-canonical")}
		if strings.HasSuffix(profile, "deep") {
			// larger documents with deeper container nesting
			prof.MaxNodes, prof.Depth, prof.TopBlocks = 160, 6, 12
		}
		if prof.Canonical {
			prof.No = map[string]bool{}
			for _, n := range strings.Split(os.Getenv("VERIF_MODEL_NO"), ",") {
				if n != "" {
					prof.No[n] = true
				}
			}
			for n := range fmtCanonicalExcluded {
				prof.No[n] = true
			}
		}
		d := model.Generate(r, prof)
		var feats []string
		for k := range d.Features {
			feats = append(feats, k)
		}
		sort.Strings(feats)
		return []byte(d.Markdown + "\x00EXPECT\x00" + d.HTML + "\x00FEAT\x00" + strings.Join(feats, ",")), "model/" + profile
	})
	// modeldoc: the Markdown of a model document alone, as workload for the structural
	// monitors (deeply nested containers, structural tabs, laziness, multi-line inlines)
	gen.Register("modeldoc", func(r *core.Rand, index uint64, profile string) ([]byte, string) {
		prof := model.Profile{}
		if profile == "deep" {
			prof.MaxNodes, prof.Depth, prof.TopBlocks = 160, 6, 12
		}
		d := model.Generate(r, prof)
		md := d.Markdown
		switch r.Intn(10) {
		case 0:
			md = strings.ReplaceAll(strings.ReplaceAll(md, "\r\n", "\n"), "\n", "\r")
		case 1:
			md = strings.TrimRight(md, "\r\n")
		}
		return []byte(md), "modeldoc/" + profile
	})
	const printable = "!\"#$%&'()*+,-./:;<=>?@[\\]^_`{|}~"
	gen.Register("escapeall", func(r *core.Rand, index uint64, profile string) ([]byte, string) {
		var sb strings.Builder
		n := r.Range(1, 24)
		for i := 0; i < n; i++ {
			switch r.Intn(5) {
			case 0, 1:
				sb.WriteByte(printable[r.Intn(len(printable))])
			case 2:
				sb.WriteString([]string{"a", "Z", "0", "é", "ß", "日"}[r.Intn(6)])
			case 3:
				if i > 0 && i < n-1 {
					sb.WriteByte(' ')
				} else {
					sb.WriteByte('x')
				}
			default:
				sb.WriteString(words12[r.Intn(len(words12))])
			}
		}
		return []byte(sb.String()), "escapeall"
	})
	gen.Register("codeverbatim", func(r *core.Rand, index uint64, profile string) ([]byte, string) {
		pool := []string{"x", "*a*", "<b>&amp;</b>", "# h", "> q", "- l", "    deep", "\ttab", "a\\*b", "`t`", "[l](u)", "trailing  ", "é ß", "1. n", "***", "</pre>", "&#65;", "\"q\" 'r'"}
		n := r.Range(1, 5)
		var lines []string
		for i := 0; i < n; i++ {
			if i > 0 && i < n-1 && r.Intn(4) == 0 {
				lines = append(lines, "")
			} else {
				lines = append(lines, pool[r.Intn(len(pool))])
			}
		}
		return []byte(strings.Join(lines, "\n")), "codeverbatim"
	})
}

var words12 = []string{"foo", "bar", "Lorem", "x1", "héllo"}

// ---- token comparison

type htok struct {
	kind  htmltok.Kind
	name  string
	attrs string
	text  string
}

func (t htok) String() string {
	switch t.kind {
	case htmltok.Text:
		return fmt.Sprintf("text(%q)", t.text)
	case htmltok.StartTag:
		return "<" + t.name + t.attrs + ">"
	case htmltok.EndTag:
		return "</" + t.name + ">"
	case htmltok.Comment:
		return fmt.Sprintf("comment(%q)", t.text)
	default:
		return fmt.Sprintf("doctype(%q)", t.text)
	}
}

func normTokens(h []byte, weak bool) []htok {
	toks := htmltok.Tokenize(string(h))
	var out []htok
	pre := 0
	isBlockTok := func(t htmltok.Token) bool {
		return (t.Kind == htmltok.StartTag || t.Kind == htmltok.EndTag) && blockLevel[t.Name]
	}
	for i, t := range toks {
		switch t.Kind {
		case htmltok.Text:
			txt := html.UnescapeString(t.Data)
			if pre == 0 && strings.Trim(txt, " \t\r\n") == "" {
				prevBlock := i == 0 || isBlockTok(toks[i-1])
				nextBlock := i == len(toks)-1 || isBlockTok(toks[i+1])
				if prevBlock || nextBlock {
					continue
				}
			}
			if weak && pre == 0 {
				// layout whitespace (calibration against other implementations only)
				if i == 0 || isBlockTok(toks[i-1]) {
					txt = strings.TrimLeft(txt, " \t\r\n")
				}
				if i == len(toks)-1 || isBlockTok(toks[i+1]) {
					txt = strings.TrimRight(txt, " \t\r\n")
				}
				if txt == "" {
					continue
				}
				if strings.Trim(txt, " \t\r\n") == "" && strings.Contains(txt, "\n") {
					txt = "\n"
				}
			}
			if n := len(out); n > 0 && out[n-1].kind == htmltok.Text {
				out[n-1].text += txt
			} else {
				out = append(out, htok{kind: htmltok.Text, text: txt})
			}
		case htmltok.StartTag:
			if t.Name == "pre" {
				pre++
			}
			var as []string
			for _, a := range t.Attrs {
				if weak && t.Name == "img" && a.Name == "alt" {
					continue
				}
				as = append(as, " "+a.Name+"="+fmt.Sprintf("%q", html.UnescapeString(a.Value)))
			}
			sort.Strings(as)
			out = append(out, htok{kind: htmltok.StartTag, name: t.Name, attrs: strings.Join(as, "")})
		case htmltok.EndTag:
			if t.Name == "pre" && pre > 0 {
				pre--
			}
			out = append(out, htok{kind: htmltok.EndTag, name: t.Name})
		default:
			out = append(out, htok{kind: t.Kind, text: t.Data})
		}
	}
	return out
}

// CompareHTMLTokens compares two HTML strings on tokens; on a difference it
// returns a short signature of the first differing token pair.
func CompareHTMLTokens(want, got []byte) (bool, string) { return compareHTMLTokens(want, got, false) }

// CompareHTMLTokensWeak also trims layout whitespace next to block-level tags
// and ignores img alt attributes; it is used only by the development-time
// calibrator, never by a registered check.
func CompareHTMLTokensWeak(want, got []byte) (bool, string) {
	return compareHTMLTokens(want, got, true)
}

func compareHTMLTokens(want, got []byte, weak bool) (bool, string) {
	a, b := normTokens(want, weak), normTokens(got, weak)
	for i := 0; i < len(a) || i < len(b); i++ {
		switch {
		case i >= len(a):
			return false, "expected end, got " + b[i].String()
		case i >= len(b):
			return false, "expected " + a[i].String() + ", got end"
		case a[i] != b[i]:
			ctxs := ""
			if i > 0 {
				ctxs = " after " + a[i-1].String()
			}
			return false, "expected " + a[i].String() + ", got " + b[i].String() + ctxs
		}
	}
	return true, ""
}

func (c06) Check(ctx *core.Ctx, c *core.Case) {
	switch c.Gen {
	case "model", "directed":
		parts := bytes.SplitN(c.Input, []byte("\x00EXPECT\x00"), 2)
		if len(parts) != 2 {
			ctx.Skip("not_a_model_case")
			return
		}
		md, want := parts[0], parts[1]
		if fp := bytes.SplitN(want, []byte("\x00FEAT\x00"), 2); len(fp) == 2 {
			want = fp[0]
			for _, f := range strings.Split(string(fp[1]), ",") {
				if f != "" {
					ctx.Inc("model:" + f)
				}
			}
		}
		variants := [][]byte{md}
		if c.Seed%3 == 0 {
			variants = append(variants, bytes.ReplaceAll(md, []byte("\n"), []byte("\r\n")))
		}
		for vi, v := range variants {
			var blocks []*cm.RootBlock
			var refs cm.ReferenceMap
			if c.Seed%5 == 1 {
				// "parsing": the property names no entry point; a fifth of the documents are read
				// through the streaming parser under small random reads or reads cut inside CRLF
				sched := []int{5, 8, 1}[c.Seed/5%3]
				data := append([]byte(nil), v...)
				_, chunk, zeros, eofData := scheduleChunk(sched, core.NewRand(c.Seed), data)
				res := StreamParse(&SchedReader{Data: data, Chunk: chunk, Zeros: zeros, EOFWithData: eofData, FailAt: -1}, nil, data, true)
				blocks, refs = res.Blocks, res.Refs
				ctx.Inc("documents_through_the_streaming_parser")
			} else {
				blocks, refs, _ = core.ParseCopy(v)
			}
			got := core.RenderDefault(blocks, refs)
			if vi == 1 {
				got = bytes.ReplaceAll(got, []byte("\r"), nil)
				ctx.Inc("crlf_variants")
			}
			if ok, diff := CompareHTMLTokens(want, got); !ok {
				ctx.Violation("html_mismatch", "%s\n document: %s\n expected: %s\n library:  %s", diff, core.Quote(v), core.Quote(want), core.Quote(got))
				return
			}
			if vi == 0 {
				st := core.Stats(blocks)
				kinds := 0
				for k := range st.Kinds {
					if strings.HasSuffix(k, "BlockKind") || k == "ParagraphKind" || k == "ATXHeadingKind" || k == "SetextHeadingKind" || k == "ThematicBreakKind" || k == "ListKind" || k == "BlockQuoteKind" || k == "LinkReferenceDefinitionKind" {
						kinds++
					}
					ctx.Counters["construct:"+k] += int64(st.Kinds[k])
				}
				if kinds >= 3 || st.MaxDepth >= 5 {
					ctx.NonTrivial()
				}
			}
		}
		ctx.Inc("model_documents_compared")
	case "escapeall":
		t := string(c.Input)
		var esc strings.Builder
		for i := 0; i < len(t); i++ {
			if t[i] < 0x80 && strings.IndexByte("!\"#$%&'()*+,-./:;<=>?@[\\]^_`{|}~", t[i]) >= 0 {
				esc.WriteByte('\\')
			}
			esc.WriteByte(t[i])
		}
		want := "<p>" + html.EscapeString(t) + "</p>"
		for vi, doc := range []string{esc.String() + "\n", "> " + esc.String() + "\n", "- " + esc.String() + "\n"} {
			blocks, refs, _ := core.ParseCopy([]byte(doc))
			got := core.RenderDefault(blocks, refs)
			w := want
			switch vi {
			case 1:
				w = "<blockquote>" + want + "</blockquote>"
			case 2:
				w = "<ul><li>" + html.EscapeString(t) + "</li></ul>"
			}
			if ok, diff := CompareHTMLTokens([]byte(w), got); !ok {
				ctx.Violation("escape_all", "backslash-escaping every punctuation character of %q does not give the text literally: %s\n document: %q\n library: %s", t, diff, doc, core.Quote(got))
				return
			}
		}
		ctx.Inc("escape_all_texts")
		ctx.NonTrivial()
	case "codeverbatim":
		lines := strings.Split(string(c.Input), "\n")
		rnd := core.NewRand(c.Seed)
		var content strings.Builder
		for _, l := range lines {
			content.WriteString(l + "\n")
		}
		wantCode := html.EscapeString(content.String())
		fence := []string{"```", "~~~", "````", "~~~~~"}[rnd.Intn(4)]
		mk := func(prefixFirst, prefixRest string, body []string) string {
			var sb strings.Builder
			for i, l := range body {
				p := prefixRest
				if i == 0 {
					p = prefixFirst
				}
				if l == "" {
					sb.WriteString(strings.TrimRight(p, " ") + "\n")
				} else {
					sb.WriteString(p + l + "\n")
				}
			}
			return sb.String()
		}
		fenced := append(append([]string{fence}, lines...), fence)
		var indented []string
		for _, l := range lines {
			if l == "" {
				indented = append(indented, "")
			} else {
				indented = append(indented, "    "+l)
			}
		}
		type tc struct{ doc, open, close string }
		cases := []tc{
			{mk("", "", fenced), "<pre><code>", "</code></pre>"},
			{mk("", "", indented), "<pre><code>", "</code></pre>"},
			{mk("> ", "> ", fenced), "<blockquote><pre><code>", "</code></pre></blockquote>"},
			{mk("> ", "> ", indented), "<blockquote><pre><code>", "</code></pre></blockquote>"},
			{mk("- ", "  ", fenced), "<ul><li><pre><code>", "</code></pre></li></ul>"},
			{mk("1. ", "   ", indented), "<ol><li><pre><code>", "</code></pre></li></ol>"},
		}
		for _, k := range cases {
			for crlf := 0; crlf < 2; crlf++ {
				doc := k.doc
				if crlf == 1 {
					doc = strings.ReplaceAll(doc, "\n", "\r\n")
				}
				blocks, refs, _ := core.ParseCopy([]byte(doc))
				got := core.RenderDefault(blocks, refs)
				if crlf == 1 {
					got = bytes.ReplaceAll(got, []byte("\r"), nil)
				}
				want := k.open + wantCode + k.close
				if ok, _ := CompareHTMLTokens([]byte(want), got); !ok {
					ctx.Violation("code_verbatim", "code block content does not come out verbatim\n document: %q\n expected: %q\n library:  %s", doc, want, core.Quote(got))
					return
				}
			}
		}
		ctx.Inc("code_blocks_checked")
		ctx.NonTrivial()
	default:
		ctx.Skip("not_a_c06_case")
	}
}

var _ = cm.Parse

// fmtCanonicalExcluded lists the constructs outside the fmt-canonical profile
// of C20 clause 2 (constructs the formatter does not support); see DESIGN C20.
var fmtCanonicalExcluded = map[string]bool{}
