package mon

import (
	"errors"
	"fmt"
	"io"

	"verif/core"

	cm "zombiezen.com/go/commonmark"
)

// ReadEvent is one call to the reader, recorded at the client boundary.
type ReadEvent struct {
	Want, N int
	Err     error
}

// SchedReader delivers Data according to a read schedule and an optional
// fault, and records every call.
type SchedReader struct {
	Data []byte
	Pos  int
	// Chunk returns the maximum number of bytes (>=1) for a read starting at pos.
	Chunk func(pos int) int
	// Zeros returns how many (0, nil) reads to inject before the read at pos.
	Zeros       func(pos int) int
	EOFWithData bool // final data delivered together with io.EOF

	FailAt            int   // fail after exactly FailAt bytes; <0: no fault
	FailErr           error // the error to return
	FailWithData      bool  // error returned together with the last bytes before FailAt
	ContinueAfterFail bool  // hostile reader: if called again after the error, keeps delivering data
	EOFAfterFail      bool  // reader that reports its error once: if called again, it says io.EOF

	Log             []ReadEvent
	errorReturned   bool
	zerosDone       int
	zerosPos        int
	ReadsAfterError int
}

func (r *SchedReader) record(want, n int, err error) (int, error) {
	if len(r.Log) < 1<<16 {
		r.Log = append(r.Log, ReadEvent{want, n, err})
	}
	return n, err
}

func (r *SchedReader) Read(p []byte) (int, error) {
	if r.errorReturned {
		r.ReadsAfterError++
		if !r.ContinueAfterFail {
			if r.FailAt >= 0 && r.Pos >= r.FailAt && !r.EOFAfterFail {
				return r.record(len(p), 0, r.FailErr)
			}
			return r.record(len(p), 0, io.EOF)
		}
		// hostile continuation: behave as if no fault had been configured
		if r.Pos >= len(r.Data) {
			return r.record(len(p), 0, io.EOF)
		}
		n := copy(p, r.Data[r.Pos:])
		r.Pos += n
		return r.record(len(p), n, nil)
	}
	if len(p) == 0 {
		return r.record(0, 0, nil)
	}
	limit := len(r.Data)
	if r.FailAt >= 0 && r.FailAt < limit {
		limit = r.FailAt
	}
	if r.Pos >= limit {
		r.errorReturned = true
		if r.FailAt >= 0 && r.Pos >= r.FailAt {
			return r.record(len(p), 0, r.FailErr)
		}
		return r.record(len(p), 0, io.EOF)
	}
	if r.Zeros != nil {
		if r.zerosPos != r.Pos {
			r.zerosPos, r.zerosDone = r.Pos, 0
		}
		if r.zerosDone < r.Zeros(r.Pos) {
			r.zerosDone++
			return r.record(len(p), 0, nil)
		}
	}
	n := len(p)
	if r.Chunk != nil {
		if c := r.Chunk(r.Pos); c >= 1 && c < n {
			n = c
		}
	}
	if r.Pos+n > limit {
		n = limit - r.Pos
	}
	copy(p, r.Data[r.Pos:r.Pos+n])
	r.Pos += n
	if r.Pos >= limit {
		if r.FailAt >= 0 && limit == r.FailAt && r.FailAt <= len(r.Data) {
			if r.FailWithData {
				r.errorReturned = true
				return r.record(len(p), n, r.FailErr)
			}
		} else if r.EOFWithData {
			r.errorReturned = true
			return r.record(len(p), n, io.EOF)
		}
	}
	return r.record(len(p), n, nil)
}

// StreamResult is what the streaming client observed.
type StreamResult struct {
	Blocks    []*cm.RootBlock
	Refs      cm.ReferenceMap
	Err       error   // terminal error of NextBlock
	After     []error // errors of three further calls
	AfterBlk  int     // number of non-nil blocks returned by the further calls
	HookFails []string
	Calls     int
}

// StreamParse follows the protocol of C08: read all blocks, Extract each,
// then Rewrite each with the collected map; after the first error call
// NextBlock three more times. After every call the build-tag-guarded state
// snapshot is checked for conservation (bytes in = offset + held) and for
// the line counter.
func StreamParse(r io.Reader, sr *SchedReader, input []byte, rewrite bool) *StreamResult {
	res := &StreamResult{Refs: cm.ReferenceMap{}}
	p := cm.NewBlockParser(r)
	var li lineIndex
	if sr != nil {
		if sr.FailAt >= 0 && sr.FailAt < len(input) {
			// what the reader delivers before its error (a reader that would go on delivering
			// if it were called again is never asked by a parser that latches the error)
			input = input[:sr.FailAt]
		}
		li = newLineIndex(input)
	}
	check := func() {
		if sr == nil {
			return
		}
		st := p.VerifState()
		if st.Err != nil && st.Err != io.EOF && st.Err != sr.FailErr {
			return // block-size limit reached; bookkeeping after a dropped line is not judged
		}
		if int64(sr.Pos) != st.Offset+int64(st.UnpaddedLen) && !sr.ContinueAfterFail {
			if len(res.HookFails) < 3 {
				res.HookFails = append(res.HookFails, fmt.Sprintf("conservation: reader delivered %d bytes, parser offset %d + held %d", sr.Pos, st.Offset, st.UnpaddedLen))
			}
		}
		// The counter is only observable through blocks that are still to come;
		// at end of input (a final blank line without a line ending) it is not judged.
		if st.Offset < int64(len(input)) {
			if want := 1 + li.before(int(st.Offset)); st.Lineno != want {
				if len(res.HookFails) < 3 {
					res.HookFails = append(res.HookFails, fmt.Sprintf("lineno: parser lineno %d at offset %d, input has line %d there", st.Lineno, st.Offset, want))
				}
			}
		}
	}
	for {
		b, err := p.NextBlock()
		res.Calls++
		check()
		if err != nil {
			res.Err = err
			if b != nil {
				res.AfterBlk++
			}
			break
		}
		if b == nil {
			res.Err = errors.New("NextBlock returned (nil, nil)")
			break
		}
		res.Blocks = append(res.Blocks, b)
		if len(res.Blocks) > len(input)+8 {
			res.Err = errors.New("more blocks than input bytes")
			break
		}
	}
	for i := 0; i < 3; i++ {
		b, err := p.NextBlock()
		res.After = append(res.After, err)
		if b != nil {
			res.AfterBlk++
		}
	}
	for _, b := range res.Blocks {
		res.Refs.Extract(b.Source, b.AsNode())
	}
	if rewrite {
		ip := &cm.InlineParser{ReferenceMatcher: res.Refs}
		for _, b := range res.Blocks {
			ip.Rewrite(b)
		}
	}
	return res
}

// Standard schedules, chosen by id; rnd drives the random ones.
func scheduleChunk(id int, rnd *core.Rand, data []byte) (name string, chunk func(pos int) int, zeros func(pos int) int, eofWithData bool) {
	switch id {
	case 0:
		return "whole", nil, nil, false
	case 1:
		return "1-byte", func(int) int { return 1 }, nil, false
	case 2:
		return "whole+eof-with-data", nil, nil, true
	case 3:
		return "1-byte+eof-with-data", func(int) int { return 1 }, nil, true
	case 4, 5, 6, 7:
		k := []int{2, 7, 64, 4096}[id-4]
		seed := rnd.U64()
		return fmt.Sprintf("random<=%d", k), func(pos int) int { return 1 + int(core.Mix(seed, uint64(pos))%uint64(k)) }, nil, rnd.Bool()
	case 8:
		// cut exactly inside CRLF, multi-byte characters and NUL runs
		return "cut-inside-crlf/rune/nul", func(pos int) int {
			for i := pos; i < len(data); i++ {
				c := data[i]
				if i > pos && (c == '\n' && data[i-1] == '\r' || c&0xC0 == 0x80 || c == 0 && data[i-1] == 0) {
					return i - pos
				}
				if i+1 < len(data) && i+1 > pos {
					n := data[i+1]
					if c == '\r' && n == '\n' || n&0xC0 == 0x80 || c == 0 && n == 0 {
						return i + 1 - pos
					}
				}
			}
			return len(data) - pos
		}, nil, rnd.Bool()
	case 9:
		seed := rnd.U64()
		return "random<=7+zero-reads", func(pos int) int { return 1 + int(core.Mix(seed, uint64(pos))%7) },
			func(pos int) int { return int(core.Mix(seed, 77, uint64(pos)) % 4) }, rnd.Bool()
	case 10:
		return "8k-chunks", func(pos int) int { return 8192 - pos%8192 }, nil, false
	default:
		return "8k-1-chunks", func(pos int) int { return 8191 }, nil, true
	}
}

const numSchedules = 12
