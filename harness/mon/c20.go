package mon

import (
	"bytes"
	"errors"
	"io"
	"strings"

	"verif/core"
	"verif/gen"

	cm "zombiezen.com/go/commonmark"
	"zombiezen.com/go/commonmark/format"
)

// C20 — Format is total, deterministic, and meaning-preserving on canonical documents.
type c20 struct{}

func init() {
	core.Register(c20{})
	assumptions["C20"] = []string{
		"clause 1 (all inputs): healthy writers, determinism, tree/Source untouched, and a recording writer that fails at its j-th call (every j when the healthy run makes <= 400 calls, 32 sampled j above; Write and WriteString paths; also short writes)",
		"clause 2 (canonical style): documents of the fmt-canonical profile of the model generator (DESIGN C20 / Appendix C); H(Parse(Format(Parse(d)))) == H(Parse(d)) in default and safe mode modulo inter-block whitespace, and Format is a fixed point on its own output",
	}
}

func (c20) ID() string { return "C20" }

// MinimiseCase: canonical-style documents stop being canonical when bytes are deleted.
func (c20) MinimiseCase(c *core.Case) bool { return c.Gen != "model" }
func (c20) Rule() string {
	return "clause 1 on every input: Format to bytes.Buffer and to a plain io.Writer returns nil with identical bytes twice, fingerprint and Source unchanged, injected writer error returned by identity with no call after it. clause 2 on model/fmt-canonical documents: HTML preserved and Format idempotent. Non-trivial: >= 3 block kinds or a nested container (clause 2), or a writer fault sweep was run (clause 1); distinct by input hash"
}

func (c20) Plan(tier string) []core.Segment {
	return []core.Segment{
		{Gen: "model", Profile: "fmt-canonical", Count: scale(tier, 300_000, 6_000_000), Desc: "canonical-style documents over the supported construct set (clause 2)"},
		{Gen: "model", Profile: "fmt-canonical-deep", Count: scale(tier, 30_000, 600_000), Desc: "larger canonical-style documents (up to 160 nodes, containers nested 6 deep)", Batch: 2000},
		{Gen: "spec", Count: gen.CorpusSize(), Exhaustive: true},
		{Gen: "specprefix", Count: gen.PrefixCount(), Exhaustive: true},
		{Gen: "lines", Profile: "default", Count: scale(tier, 80_000, 3_000_000)},
		{Gen: "limits", Profile: "default", Count: scale(tier, 4_000, 100_000), Desc: "documents on numeric thresholds: 999-character labels, 9-digit list numbers, reference digit counts, scheme and domain lengths, line endings on the 8 KiB read window, indentation columns, long runs, deep nesting"},
		{Gen: "defsplit", Profile: "default", Count: scale(tier, 30_000, 1_000_000), Desc: "definition-like paragraphs cut into lines at every place, inside containers with space/tab/partly consumed tab prefixes and hostile bytes right after the prefix"},
		{Gen: "inlinex", Profile: "default", Count: scale(tier, 60_000, 2_000_000), Desc: "well-formed inline trees whose delimiter tokens were deleted, duplicated, moved, swapped or respelled: constructs crossing each other's boundaries"},
		{Gen: "lines", Profile: "hostile", Count: scale(tier, 40_000, 1_500_000)},
		{Gen: "soup", Profile: "default", Count: scale(tier, 80_000, 3_000_000)},
		{Gen: "soup", Profile: "hostile", Count: scale(tier, 40_000, 1_500_000)},
		{Gen: "specmut", Count: scale(tier, 60_000, 2_000_000)},
		{Gen: "patho", Count: gen.PathoCount(), Exhaustive: true},
	}
}

func (c20) Directed() []core.Directed {
	return []core.Directed{
		d("para\n\n7) a\n\n   b\n", "P20: loose ordered list after a paragraph"),
		d("- a\n  ***\n", "thematic break after a paragraph in a tight item"),
		d("# h\n\n> q\n> r\n\n```go\ncode\n```\n\n1. a\n2. b\n", "mixed"),
		d("[a]: /u 'T'\n\n[a] [b](c \"d\") ![e](f)\n", "links"),
		d("", "empty"),
	}
}

// faultWriter records every call and fails at the j-th one.
type faultWriter struct {
	failAt     int // call index that fails; <0 never
	err        error
	short      bool // failing call accepts half of the bytes
	calls      int
	afterFail  int
	accepted   bytes.Buffer
	stringPath bool
}

func (w *faultWriter) write(p []byte) (int, error) {
	idx := w.calls
	w.calls++
	if w.failAt >= 0 && idx > w.failAt {
		w.afterFail++
		return 0, w.err
	}
	if idx == w.failAt {
		n := 0
		if w.short {
			n = len(p) / 2
			w.accepted.Write(p[:n])
		}
		return n, w.err
	}
	w.accepted.Write(p)
	return len(p), nil
}

func (w *faultWriter) Write(p []byte) (int, error) { return w.write(p) }

// faultStringWriter also offers WriteString (the path Format prefers).
type faultStringWriter struct{ *faultWriter }

func (w faultStringWriter) WriteString(s string) (int, error) { return w.write([]byte(s)) }

var poisonTrees [][]*cm.RootBlock

// formatPoison returns pre-parsed documents whose formatting ends in unusual writer states.
func formatPoison() [][]*cm.RootBlock {
	if poisonTrees == nil {
		for _, d := range []string{"2024\n", "- a\n  - b\n    > 12", "1. 7", "> 99\n> 100", "# 5", "```\ncode\n```\n\n123456789", "a\n\n- 1\n\n  2\n"} {
			b, _ := cm.Parse([]byte(d))
			poisonTrees = append(poisonTrees, b)
		}
	}
	return poisonTrees
}

func (c20) Check(ctx *core.Ctx, c *core.Case) {
	rnd := core.NewRand(c.Seed)
	if c.Gen == "model" {
		// the model generator appends its expected HTML after a marker; only the markdown is the input here
		if i := bytes.Index(c.Input, []byte("\x00EXPECT\x00")); i >= 0 {
			c = &core.Case{Gen: c.Gen, Index: c.Index, Seed: c.Seed, Input: c.Input[:i], Note: c.Note}
		}
	}
	blocks, refs, _ := core.ParseCopy(c.Input)
	fp := core.Fingerprint(blocks, refs, core.FPOpts{})

	var b1, b2 bytes.Buffer
	if err := format.Format(&b1, blocks); err != nil {
		ctx.Violation("error_on_healthy", "Format to a bytes.Buffer returned %v", err)
		return
	}
	// Between the two runs another document is formatted that leaves every piece of writer
	// state in a non-default condition (a last line of digits only, open containers, pending
	// breaks): "the same bytes every time" must not depend on what was formatted before
	// (seeded changes C20-j and C19-i: a pooled writer that keeps its digit counter).
	poison := formatPoison()
	format.Format(io.Discard, poison[int(c.Seed%uint64(len(poison)))])
	ctx.Inc("format_runs_after_a_poisoning_document")
	if err := format.Format(&b2, blocks); err != nil || !bytes.Equal(b1.Bytes(), b2.Bytes()) {
		ctx.Violation("nondeterministic", "two Format runs differ: %s vs %s (err %v)", core.Quote(b1.Bytes()), core.Quote(b2.Bytes()), err)
		return
	}
	hw := &faultWriter{failAt: -1}
	if err := format.Format(hw, blocks); err != nil {
		ctx.Violation("error_on_healthy", "Format to a plain io.Writer returned %v", err)
		return
	}
	if !bytes.Equal(hw.accepted.Bytes(), b1.Bytes()) {
		ctx.Violation("nondeterministic", "Format writes different bytes to a plain io.Writer than to a bytes.Buffer: %s vs %s", core.Quote(hw.accepted.Bytes()), core.Quote(b1.Bytes()))
		return
	}
	hs := faultStringWriter{&faultWriter{failAt: -1}}
	if err := format.Format(hs, blocks); err != nil || !bytes.Equal(hs.accepted.Bytes(), b1.Bytes()) {
		ctx.Violation("nondeterministic", "Format through WriteString differs (err %v)", err)
		return
	}
	if core.Fingerprint(blocks, refs, core.FPOpts{}) != fp {
		ctx.Violation("tree_mutated", "Format changed the tree or Source")
		return
	}
	ctx.Inc("healthy_runs")
	ctx.Count("writer_calls_recorded", int64(hw.calls+hs.calls))

	// writer faults
	doFaults := c.Gen == "directed" || c.Gen == "spec" || c.Seed%4 == 0
	if doFaults && hw.calls > 0 {
		for variant := 0; variant < 2; variant++ {
			total := hw.calls
			if variant == 1 {
				total = hs.calls
			}
			var js []int
			if total <= 400 {
				for j := 0; j < total; j++ {
					js = append(js, j)
				}
			} else {
				for k := 0; k < 32; k++ {
					js = append(js, rnd.Intn(total))
				}
			}
			for _, j := range js {
				e := errors.New("injected writer fault")
				fw := &faultWriter{failAt: j, err: e, short: rnd.Intn(4) == 0}
				var err error
				if variant == 0 {
					err = format.Format(fw, blocks)
				} else {
					err = format.Format(faultStringWriter{fw}, blocks)
				}
				if err != e {
					ctx.Violation("wrong_error", "writer failed at call %d with a fresh error; Format returned %v (want that error, by identity)", j, err)
					return
				}
				if fw.afterFail > 0 {
					ctx.Violation("write_after_error", "writer failed at call %d; Format called it %d more time(s)", j, fw.afterFail)
					return
				}
				if !bytes.HasPrefix(b1.Bytes(), fw.accepted.Bytes()) {
					ctx.Record("accepted_bytes_not_a_prefix", "%s", core.Quote(c.Input))
				}
				ctx.Inc("fault_points")
			}
		}
		ctx.Inc("fault_sweeps")
		ctx.NonTrivial()
	}

	// Clause 2 on canonical documents, and on the witnesses of the formatter findings that
	// were repaired (each is a document in or next to the canonical style whose meaning the
	// formatter used to change), so that a regression of a fix is reported again.
	if c.Gen == "model" || c.Gen == "directed" && strings.Contains(c.Note, "fixed finding") {
		checkFormatCanonical(ctx, c, blocks, refs, b1.Bytes())
	}
}

// checkFormatCanonical is clause 2.
func checkFormatCanonical(ctx *core.Ctx, c *core.Case, blocks []*cm.RootBlock, refs cm.ReferenceMap, f1 []byte) {
	h0d := core.RenderDefault(blocks, refs)
	h0s := core.RenderSafe(blocks, refs)
	b1, r1, _ := core.ParseCopy(f1)
	h1d := core.RenderDefault(b1, r1)
	h1s := core.RenderSafe(b1, r1)
	if !bytes.Equal(normaliseBlockWS(h0d), normaliseBlockWS(h1d)) {
		ctx.Violation("html_changed", "formatting changes the rendered HTML\n input:     %s\n formatted: %s\n html before: %s\n html after:  %s", core.Quote(c.Input), core.Quote(f1), core.Quote(h0d), core.Quote(h1d))
		return
	}
	if !bytes.Equal(normaliseBlockWS(h0s), normaliseBlockWS(h1s)) {
		ctx.Violation("html_changed", "formatting changes the safe-mode HTML\n input:     %s\n formatted: %s\n html before: %s\n html after:  %s", core.Quote(c.Input), core.Quote(f1), core.Quote(h0s), core.Quote(h1s))
		return
	}
	var f2 bytes.Buffer
	format.Format(&f2, b1)
	if !bytes.Equal(f2.Bytes(), f1) {
		ctx.Violation("not_idempotent", "formatting the formatted text changes it\n input:  %s\n first:  %s\n second: %s", core.Quote(c.Input), core.Quote(f1), core.Quote(f2.Bytes()))
		return
	}
	ctx.Inc("clause2_checked")
	st := core.Stats(blocks)
	kinds := 0
	for k := range st.Kinds {
		if len(k) > 4 && (k == "ParagraphKind" || k == "ATXHeadingKind" || k == "SetextHeadingKind" || k == "ThematicBreakKind" || k == "FencedCodeBlockKind" || k == "IndentedCodeBlockKind" || k == "BlockQuoteKind" || k == "ListKind" || k == "HTMLBlockKind" || k == "LinkReferenceDefinitionKind") {
			kinds++
		}
	}
	if kinds >= 3 || st.MaxDepth >= 4 {
		ctx.NonTrivial()
	}
}
