package mon

import (
	"bytes"
	"html"
	"strings"

	"verif/core"
	"verif/gen"
	"verif/refimpl/emph"

	cm "zombiezen.com/go/commonmark"
)

// C11 — Emphasis resolution follows the spec's delimiter-run algorithm.
type c11 struct{}

func init() {
	core.Register(c11{})
	assumptions["C11"] = []string{
		"the oracle is a transcription of CommonMark 0.30 section 6.2 and of 'process emphasis' without the openers_bottom search bound (refimpl/emph), checked at development time against the 108 applicable spec examples",
		"compared: the sequence of <em>/<strong> tags and the text between them, spaces trimmed at both ends of the paragraph; rule-of-3 uses the original run lengths",
		"flanking is also compared run by run through the verif-tagged emphasisFlags export",
	}
}

func (c11) ID() string { return "C11" }
func (c11) Rule() string {
	return "per string s over the emphasis alphabet: the one-paragraph documents s (when no block rule applies to it) and \"x\"+s+\"x\" must render with the emphasis structure the reference algorithm gives; every delimiter run's can-open/can-close flags must equal the reference's. Non-trivial: >= 2 delimiter runs of which one can close; distinct by input hash"
}

func (c11) Plan(tier string) []core.Segment {
	a, b := "emph5:8", "emph8:6"
	if tier == "thorough" {
		a, b = "emph5:10", "emph8:7"
	}
	return []core.Segment{
		{Gen: "small", Profile: a, Count: gen.Size("small", a), Exhaustive: true, Desc: "all strings up to the bound over {*,_,a,SP,.}", Batch: 100000},
		{Gen: "small", Profile: b, Count: gen.Size("small", b), Exhaustive: true, Desc: "all strings up to the bound over {*,_,a,SP,.,left double quote,NBSP,e-acute}", Batch: 100000},
		{Gen: "c11long", Count: scale(tier, 3_000_000, 50_000_000), Desc: "random strings of 11-60 symbols biased to long same-character runs and run lengths summing to multiples of 3"},
		{Gen: "c11huge", Count: scale(tier, 60_000, 1_500_000), Desc: "two to four runs with lengths around 128, 256 and 512 (and short ones) between letters, punctuation and spaces", Batch: 2000},
		{Gen: "c11runes", Profile: runesProfile(tier), Count: c11RuneCount(runesProfile(tier)), Exhaustive: true, Desc: "every code point (quick: Basic Multilingual Plane; thorough: all planes) as the neighbour of a delimiter run: r*a*, *a*r, *r*, a*r*a with * and _", Batch: 100000},
	}
}

func runesProfile(tier string) string {
	if tier == "thorough" {
		return "all"
	}
	return "bmp"
}

func c11RuneCount(profile string) uint64 {
	if profile == "all" {
		return 8 * 0x110000
	}
	return 8 * 0x10000
}

func (c11) Directed() []core.Directed {
	return []core.Directed{
		d("x*_*_*a*ax", "P14: stale search bound after a deletion"),
		d("xaa*_*_*a*x", "P14 variant"),
		d("*a**b*", "rule of 3"), d("***a** b*", "strong in em"), d("_a__b_", "underscore rule of 3"), d("a_b_c", "intraword underscore"),
		d("*\fa*", "form feed is whitespace"), d("*\u00a0a*", "NBSP is whitespace"), d("a*\u201cb\u201d*", "unicode punctuation"),
	}
}

func init() {
	syms := []string{"*", "_", "a", " ", ".", "\u201c", "\u00a0", "\u00e9", "b", "\f"}
	gen.Register("c11long", func(r *core.Rand, index uint64, profile string) ([]byte, string) {
		var sb strings.Builder
		n := r.Range(4, 22)
		for i := 0; i < n; i++ {
			switch r.Intn(10) {
			case 0, 1, 2:
				sb.WriteString(strings.Repeat("*", []int{1, 1, 2, 2, 3, 3, 4, 5, 6}[r.Intn(9)]))
			case 3, 4:
				sb.WriteString(strings.Repeat("_", []int{1, 1, 2, 2, 3, 3, 4, 5, 6}[r.Intn(9)]))
			case 5, 6, 7:
				sb.WriteString([]string{"a", "b", "ab"}[r.Intn(3)])
			case 8:
				sb.WriteString(" ")
			default:
				sb.WriteString(syms[r.Intn(len(syms))])
			}
		}
		return []byte(sb.String()), "c11long"
	})
}

func init() {
	// runs whose lengths sit on the powers of two a narrowed counter would wrap at (seeded
	// change C11-k: the run length of the rule of 3 kept in eight bits)
	lens := []int{1, 2, 3, 4, 126, 127, 128, 129, 130, 254, 255, 256, 257, 258, 300, 511, 512, 513}
	gen.Register("c11huge", func(r *core.Rand, index uint64, profile string) ([]byte, string) {
		d := []string{"*", "_"}[r.Intn(2)]
		var sb strings.Builder
		sb.WriteString([]string{"a", ".", "", "a "}[r.Intn(4)])
		for i, n := 0, r.Range(2, 4); i < n; i++ {
			sb.WriteString(strings.Repeat(d, lens[r.Intn(len(lens))]))
			sb.WriteString([]string{"b", "b", ".", " b", "b ", ""}[r.Intn(6)])
		}
		return []byte(sb.String()), "c11huge"
	})
	gen.Register("c11runes", func(r *core.Rand, index uint64, profile string) ([]byte, string) {
		c := rune(index / 8)
		if c == 0 || c >= 0xD800 && c <= 0xDFFF || c > 0x10FFFF || c == '\n' || c == '\r' || c == '\t' || c == '\\' {
			// not in the property's alphabet: line endings, the tab (trimmed at paragraph edges), the escape character

			c = 'a'
		}
		d := "*"
		if index&4 != 0 {
			d = "_"
		}
		var s string
		switch index & 3 {
		case 0:
			s = string(c) + d + "a" + d
		case 1:
			s = d + "a" + d + string(c)
		case 2:
			s = d + string(c) + d
		default:
			s = "a" + d + string(c) + d + "a"
		}
		return []byte(s), "c11runes"
	})
}

// blockRuleApplies reports whether the raw string could be something other
// than one paragraph (list item, thematic break, indented code, blank).
func blockRuleApplies(s string) bool {
	t := strings.TrimLeft(s, " ")
	if len(s)-len(t) >= 4 || strings.Trim(s, " \t\f") == "" {
		return true
	}
	if strings.ContainsAny(s, "\t\f") && strings.TrimLeft(s, " \t\f") != t {
		return true // leading tab/form feed: indentation questions, not emphasis
	}
	if t[0] == '*' && (len(t) == 1 || t[1] == ' ') {
		return true
	}
	if thematicRe.MatchString(s) {
		return true
	}
	return false
}

func (c11) Check(ctx *core.Ctx, c *core.Case) {
	s := string(c.Input)
	if s == "" || strings.ContainsAny(s, "\n\r") {
		ctx.Skip("empty_or_multiline")
		return
	}
	docs := []string{"x" + s + "x"}
	if !blockRuleApplies(s) {
		docs = append(docs, s)
	}
	for _, doc := range docs {
		para := strings.Trim(doc, " ")
		want := strings.Trim(emph.Structure(para), " ")
		blocks, refs, _ := core.ParseCopy([]byte(doc))
		if len(blocks) != 1 || blocks[0].Kind() != cm.ParagraphKind {
			ctx.Skip("not_a_paragraph")
			ctx.Record("not_a_single_paragraph", "%q", doc)
			continue
		}
		out := core.RenderDefault(blocks, refs)
		out = bytes.TrimSuffix(bytes.TrimPrefix(bytes.TrimSpace(out), []byte("<p>")), []byte("</p>"))
		got := strings.Trim(html.UnescapeString(string(out)), " ")
		ctx.Inc("paragraphs_compared")
		if got != want {
			ctx.Violation("structure", "paragraph %q:\n library:   %s\n reference: %s", doc, got, want)
			return
		}
		// flanking, run by run, through the hook
		src := blocks[0].Source
		runs, closers := 0, 0
		for i := 0; i < len(src); {
			if src[i] != '*' && src[i] != '_' {
				i++
				continue
			}
			j := i
			for j < len(src) && src[j] == src[i] {
				j++
			}
			// the reference sees the paragraph's own text: leading/trailing spaces are line boundaries either way
			ro, rc := emph.Flags(string(src), i, j)
			lo, lc := cm.VerifEmphasisFlags(src, i, j)
			ctx.Inc("runs_flanking_compared")
			if ro != lo || rc != lc {
				ctx.Violation("flanking", "paragraph %q: run [%d,%d): library canOpen=%v canClose=%v, reference canOpen=%v canClose=%v", doc, i, j, lo, lc, ro, rc)
				return
			}
			runs++
			if rc {
				closers++
			}
			i = j
		}
		if runs >= 2 && closers >= 1 {
			ctx.NonTrivial()
		}
		if strings.Contains(want, "<em>") {
			ctx.Inc("paragraphs_with_em")
		}
		if strings.Contains(want, "<strong>") {
			ctx.Inc("paragraphs_with_strong")
		}
	}
}
