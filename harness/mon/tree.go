package mon

import (
	"bytes"
	"fmt"
	"unicode/utf8"

	"verif/core"

	cm "zombiezen.com/go/commonmark"
)

// parsedDoc is what the tree monitors look at: the result of Parse and,
// for a quarter of the cases, the result of streaming + Extract + Rewrite.
type parsedDoc struct {
	who    string
	blocks []*cm.RootBlock
	refs   cm.ReferenceMap
}

func parseVariants(c *core.Case, alsoStream bool) []parsedDoc {
	blocks, refs, _ := core.ParseCopy(c.Input)
	out := []parsedDoc{{"parse", blocks, refs}}
	if alsoStream && len(c.Input) <= 64*1024 {
		res := StreamParse(bytes.NewReader(c.Input), nil, c.Input, true)
		if !blockTooLarge(res.Err) {
			out = append(out, parsedDoc{"stream", res.Blocks, res.Refs})
		}
	}
	return out
}

func treeDirected() []core.Directed {
	return []core.Directed{
		d("\\é", "P6: backslash before a multi-byte character"),
		d("- # <b>\n  foo", "P7: ATX heading ending in raw HTML inside a list item"),
		d("[x][foo\nbar]\n\n[foo bar]: /u\n", "P8: full reference label spanning a line"),
		d("# f#", "P5: closing sequence glued to one-letter content"),
		d("> [a](/u\n> 'ti\n> tle')\n", "P9: multi-line title in a quote"),
		d("foo\\\nbar\n", "P12: backslash hard break"),
		d("*a **b** c*\n\n1. x\n   - y\n\n     z\n\n> q\n> ===\n", "nesting"),
		d("``` info\ncode\n```\n\n    indented\n\n<div>\nhtml\n</div>\n", "leaf blocks"),
		d("[a]: /u 'T'\n\n[a] ![b](c \"d\") <http://e.f> <g@h.i> <j k=\"l\"> &amp; `m`  \nn\\\no\n", "every inline kind"),
		d("Title\n=====\n\nSub\n---\n\n# A\n###### B ##\n\n***\n", "headings and break"),
		d("- a\n- b\n\n1) c\n2) d\n", "lists"),
		d("\tcode\n\n>\tq\n\n-\titem\n", "tabs -> Indent nodes"),
		d("é*ü*ß**ö**`ä`[ï](ë)\n", "non-ASCII next to delimiters"),
	}
}

// ------------------------------------------------------------------ C02

type c02 struct{}

func init() {
	core.Register(c02{})
	assumptions["C02"] = []string{
		"trees are traversed through Node/Block/Inline accessors only; zero-length spans are allowed",
		"character boundaries are judged only when the input is valid UTF-8 (NUL counts as valid; Source then holds U+FFFD)",
	}
}

func (c02) ID() string { return "C02" }
func (c02) Rule() string {
	return "every node of every root block from Parse (and from streaming+Extract+Rewrite on every 4th case): span valid, inside Source, inside parent, siblings ordered without overlap, root span = [indent, len(Source)), boundaries on rune starts for valid UTF-8. Non-trivial: tree depth >= 3 or >= 2 inline container nodes; distinct by input hash"
}
func (c02) Plan(tier string) []core.Segment {
	if tier == "thorough" {
		return treePlan(tier, "c02:7")
	}
	return treePlan(tier, "c02:5")
}
func (c02) Directed() []core.Directed { return treeDirected() }

func (c02) Check(ctx *core.Ctx, c *core.Case) {
	valid := validUTF8(c.Input)
	for _, pd := range parseVariants(c, c.Seed%4 == 0) {
		for bi, rb := range pd.blocks {
			checkSpans(ctx, pd.who, bi, rb, valid)
			if ctx.Failed() {
				break
			}
		}
		if pd.who == "parse" {
			st := core.Stats(pd.blocks)
			containers := st.Kinds["EmphasisKind"] + st.Kinds["StrongKind"] + st.Kinds["LinkKind"] + st.Kinds["ImageKind"] + st.Kinds["CodeSpanKind"] + st.Kinds["HTMLTagKind"] + st.Kinds["AutolinkKind"]
			if st.MaxDepth >= 3 || containers >= 2 {
				ctx.NonTrivial()
			}
			ctx.Max("max_tree_depth", int64(st.MaxDepth))
			if ctx.Verbose {
				ctx.Log("%s", core.DumpBlocks(pd.blocks, pd.refs))
			}
		}
	}
}

func checkSpans(ctx *core.Ctx, who string, bi int, rb *cm.RootBlock, validInput bool) {
	src := rb.Source
	rs := rb.Span()
	if !rs.IsValid() || rs.End != len(src) {
		ctx.Violation("root_end", "%s: root block %d (%s) has span [%d,%d), len(Source)=%d; Source=%s", who, bi, rb.Kind(), rs.Start, rs.End, len(src), core.Quote(src))
		return
	}
	for i := 0; i < rs.Start && i < len(src); i++ {
		if src[i] != ' ' && src[i] != '\t' {
			ctx.Violation("root_prefix", "%s: root block %d (%s) span starts at %d but Source[%d]=%q is not a space or tab; Source=%s", who, bi, rb.Kind(), rs.Start, i, src[i], core.Quote(src))
			return
		}
	}
	type frame struct {
		n      cm.Node
		parent cm.Node
	}
	stack := []frame{{n: rb.AsNode()}}
	for len(stack) > 0 {
		fr := stack[len(stack)-1]
		stack = stack[:len(stack)-1]
		n := fr.n
		sp := n.Span()
		kind := core.KindName(n)
		ctx.Counters["nodes:"+kind]++
		if !sp.IsValid() || sp.Start < 0 || sp.End < sp.Start {
			ctx.Violation("invalid", "%s: block %d: %s has invalid span [%d,%d); Source=%s", who, bi, kind, sp.Start, sp.End, core.Quote(src))
			return
		}
		if sp.End > len(src) {
			ctx.Violation("outside_source", "%s: block %d: %s span [%d,%d) exceeds len(Source)=%d; Source=%s", who, bi, kind, sp.Start, sp.End, len(src), core.Quote(src))
			return
		}
		if fr.parent != (cm.Node{}) {
			ps := fr.parent.Span()
			if sp.Start < ps.Start || sp.End > ps.End {
				ctx.Violation("outside_parent", "%s: block %d: %s [%d,%d) is not inside its parent %s [%d,%d); Source=%s", who, bi, kind, sp.Start, sp.End, core.KindName(fr.parent), ps.Start, ps.End, core.Quote(src))
				return
			}
			ctx.Counters["pair:"+core.KindName(fr.parent)+">"+kind]++
		}
		if validInput {
			for _, p := range [2]int{sp.Start, sp.End} {
				if p < len(src) && !utf8.RuneStart(src[p]) {
					ctx.Violation("mid_rune", "%s: block %d: %s [%d,%d) has a boundary inside a multi-byte character; Source=%s", who, bi, kind, sp.Start, sp.End, core.Quote(src))
					return
				}
			}
		}
		cc := n.ChildCount()
		prevEnd := -1
		for i := 0; i < cc; i++ {
			ch := n.Child(i)
			cs := ch.Span()
			if cs.IsValid() {
				if prevEnd >= 0 && cs.Start < prevEnd {
					ctx.Violation("sibling_order", "%s: block %d: child %d of %s (%s [%d,%d)) starts before the end %d of its previous sibling; Source=%s", who, bi, i, kind, core.KindName(ch), cs.Start, cs.End, prevEnd, core.Quote(src))
					return
				}
				prevEnd = cs.End
			}
		}
		for i := cc - 1; i >= 0; i-- {
			stack = append(stack, frame{n: n.Child(i), parent: n})
		}
	}
}

// ------------------------------------------------------------------ C03

type c03 struct{}

func init() {
	core.Register(c03{})
	assumptions["C03"] = []string{
		"leaves = childless Text, RawHTML, CharacterReference, SoftLineBreak, HardLineBreak, Indent inlines and ListMarker blocks; a childless container is not a leaf",
		"'lost' is judged only for ASCII letters, ASCII digits and bytes >= 0x80, as the statement says",
	}
}

func (c03) ID() string { return "C03" }
func (c03) Rule() string {
	return "per root block a coverage counter over Source incremented by every leaf span: no byte covered twice, every letter/digit/non-ASCII byte covered once. Non-trivial: >= 3 leaves and a leaf below depth 2; distinct by input hash"
}
func (c03) Plan(tier string) []core.Segment {
	if tier == "thorough" {
		return treePlan(tier, "c02:7")
	}
	return treePlan(tier, "c02:5")
}
func (c03) Directed() []core.Directed { return treeDirected() }

func isLeafKind(n cm.Node) bool {
	if b := n.Block(); b != nil {
		return b.Kind() == cm.ListMarkerKind
	}
	switch n.Inline().Kind() {
	case cm.TextKind, cm.RawHTMLKind, cm.CharacterReferenceKind, cm.SoftLineBreakKind, cm.HardLineBreakKind, cm.IndentKind:
		return true
	}
	return false
}

func (c03) Check(ctx *core.Ctx, c *core.Case) {
	for _, pd := range parseVariants(c, c.Seed%4 == 0) {
		leaves, deep := 0, false
		for bi, rb := range pd.blocks {
			src := rb.Source
			cover := make([]uint8, len(src))
			bad := false
			core.WalkTree(rb.AsNode(), func(n, _ cm.Node, depth, _ int) {
				if bad || n.ChildCount() != 0 || !isLeafKind(n) {
					return
				}
				sp := n.Span()
				if !sp.IsValid() || sp.End > len(src) {
					return // C02's business
				}
				leaves++
				if depth > 2 {
					deep = true
				}
				ctx.Counters["leaves:"+core.KindName(n)]++
				for i := sp.Start; i < sp.End; i++ {
					if cover[i] < 200 {
						cover[i]++
					}
					if cover[i] > 1 && !bad {
						bad = true
						ctx.Violation("duplicated", "%s: block %d: byte %d (%q) is covered by more than one leaf (second: %s [%d,%d)); Source=%s", pd.who, bi, i, src[i], core.KindName(n), sp.Start, sp.End, core.Quote(src))
					}
				}
			})
			if bad {
				return
			}
			for i, ch := range src {
				if cover[i] == 0 && (ch >= 0x80 || ch >= '0' && ch <= '9' || ch >= 'a' && ch <= 'z' || ch >= 'A' && ch <= 'Z') {
					ctx.Violation("lost", "%s: block %d (%s): byte %d (%q) is in no leaf; Source=%s", pd.who, bi, rb.Kind(), i, ch, core.Quote(src))
					return
				}
			}
			ctx.Count("bytes_accounted", int64(len(src)))
		}
		if pd.who == "parse" {
			if leaves >= 3 && deep {
				ctx.NonTrivial()
			}
			if ctx.Verbose {
				ctx.Log("%s", core.DumpBlocks(pd.blocks, pd.refs))
			}
		}
	}
}

// ------------------------------------------------------------------ C05

type c05 struct{}

func init() {
	core.Register(c05{})
	assumptions["C05"] = []string{
		"judged rules are those the statement lists; rules found only in doc comments are recorded (recorded:doc_rule) and do not affect the verdict",
		"Indent is admitted wherever the library's tab handling places it; 'phrasing' = every inline kind except InfoString, LinkDestination, LinkTitle, LinkLabel, Unparsed",
	}
}

func (c05) ID() string { return "C05" }
func (c05) Rule() string {
	return "executable tree grammar + accessor rules at every node of trees from Parse and from streaming+Extract+Rewrite (every 2nd case). Non-trivial: >= 4 distinct node kinds in the document; distinct by input hash"
}
func (c05) Plan(tier string) []core.Segment {
	if tier == "thorough" {
		return treePlan(tier, "c02:7")
	}
	return treePlan(tier, "c02:5")
}
func (c05) Directed() []core.Directed { return treeDirected() }

func isPhrasing(k cm.InlineKind) bool {
	switch k {
	case cm.InfoStringKind, cm.LinkDestinationKind, cm.LinkTitleKind, cm.LinkLabelKind, cm.UnparsedKind, 0:
		return false
	}
	return true
}

func (c05) Check(ctx *core.Ctx, c *core.Case) {
	for _, pd := range parseVariants(c, c.Seed%2 == 0) {
		for bi, rb := range pd.blocks {
			checkGrammar(ctx, pd.who, bi, rb)
			if ctx.Failed() {
				return
			}
		}
		if pd.who == "parse" {
			if st := core.Stats(pd.blocks); len(st.Kinds) >= 4 {
				ctx.NonTrivial()
			}
			if ctx.Verbose {
				ctx.Log("%s", core.DumpBlocks(pd.blocks, pd.refs))
			}
		}
	}
}

func checkGrammar(ctx *core.Ctx, who string, bi int, rb *cm.RootBlock) {
	src := rb.Source
	fail := func(code, format string, a ...any) {
		ctx.Violation(code, "%s: block %d: %s; Source=%s", who, bi, fmt.Sprintf(format, a...), core.Quote(src))
	}
	type frame struct {
		n          cm.Node
		parent     cm.Node
		inLink     bool
		listParent *cm.Block
	}
	stack := []frame{{n: rb.AsNode()}}
	for len(stack) > 0 && !ctx.Failed() {
		fr := stack[len(stack)-1]
		stack = stack[:len(stack)-1]
		n := fr.n
		cc := n.ChildCount()
		kids := make([]cm.Node, cc)
		for i := range kids {
			kids[i] = n.Child(i)
		}
		inLink := fr.inLink
		if b := n.Block(); b != nil {
			k := b.Kind()
			ctx.Counters["prod:"+k.String()]++
			// accessors
			hl := b.HeadingLevel()
			switch k {
			case cm.ATXHeadingKind:
				if hl < 1 || hl > 6 {
					fail("heading_level", "ATX heading with level %d", hl)
				}
			case cm.SetextHeadingKind:
				if hl < 1 || hl > 2 {
					fail("heading_level", "setext heading with level %d", hl)
				}
			default:
				if hl != 0 {
					fail("heading_level", "%s has HeadingLevel %d", k, hl)
				}
			}
			num := b.ListItemNumber(src)
			if k == cm.ListItemKind && b.IsOrderedList() {
				if num < 0 || num > 999999999 {
					fail("item_number", "ordered list item has number %d", num)
				}
			} else if num != -1 {
				fail("item_number", "%s (ordered=%v) has ListItemNumber %d, want -1", k, b.IsOrderedList(), num)
			}
			if is := b.InfoString(); (is != nil) != (k == cm.FencedCodeBlockKind && cc > 0 && kids[0].Inline().Kind() == cm.InfoStringKind) {
				ctx.Record("info_string", "%s", core.Quote(src))
			}
			if k != cm.ListKind && k != cm.ListItemKind && (b.IsOrderedList() || b.IsTightList()) {
				ctx.Record("doc_rule:list_accessor_on_"+k.String(), "%s", core.Quote(src))
			}
			switch k {
			case cm.ListKind:
				if cc == 0 {
					fail("arity", "List without items")
				}
				for i, ch := range kids {
					cb := ch.Block()
					if cb == nil || cb.Kind() != cm.ListItemKind {
						fail("child_kind", "List child %d is %s", i, core.KindName(ch))
						break
					}
					if cb.IsOrderedList() != b.IsOrderedList() || cb.IsTightList() != b.IsTightList() {
						fail("list_item_disagree", "list (ordered=%v tight=%v) vs item %d (ordered=%v tight=%v)", b.IsOrderedList(), b.IsTightList(), i, cb.IsOrderedList(), cb.IsTightList())
						break
					}
				}
			case cm.ListItemKind:
				if cc == 0 || kids[0].Block().Kind() != cm.ListMarkerKind {
					first := "nothing"
					if cc > 0 {
						first = core.KindName(kids[0])
					}
					fail("child_kind", "ListItem starts with %s, not a ListMarker", first)
				}
				for i := 1; i < cc; i++ {
					cb := kids[i].Block()
					if cb == nil || cb.Kind() == cm.ListItemKind || cb.Kind() == cm.ListMarkerKind {
						ctx.Record("doc_rule:ListItem>"+core.KindName(kids[i]), "%s", core.Quote(src))
					}
				}
				if fr.parent.Block().Kind() != cm.ListKind {
					ctx.Record("doc_rule:ListItem_outside_List", "%s", core.Quote(src))
				}
			case cm.LinkReferenceDefinitionKind:
				ok := (cc == 2 || cc == 3) && kids[0].Inline().Kind() == cm.LinkLabelKind && kids[1].Inline().Kind() == cm.LinkDestinationKind && (cc == 2 || kids[2].Inline().Kind() == cm.LinkTitleKind)
				if !ok {
					fail("arity", "LinkReferenceDefinition children are %s", kindList(kids))
				}
			case cm.ParagraphKind, cm.ATXHeadingKind, cm.SetextHeadingKind:
				for i, ch := range kids {
					in := ch.Inline()
					if in == nil || !isPhrasing(in.Kind()) {
						code := "child_kind"
						if in.Kind() == cm.UnparsedKind {
							code = "unparsed"
						}
						fail(code, "%s child %d is %s", k, i, core.KindName(ch))
						break
					}
				}
			case cm.IndentedCodeBlockKind, cm.FencedCodeBlockKind:
				for i, ch := range kids {
					in := ch.Inline()
					if in != nil && in.Kind() == cm.InfoStringKind {
						if k == cm.FencedCodeBlockKind && i == 0 {
							continue
						}
						fail("order", "%s has an InfoString at child %d", k, i)
						break
					}
					if in == nil || !(in.Kind() == cm.TextKind || in.Kind() == cm.IndentKind || in.Kind() == cm.SoftLineBreakKind) {
						code := "child_kind"
						if in.Kind() == cm.UnparsedKind {
							code = "unparsed"
						}
						fail(code, "%s child %d is %s", k, i, core.KindName(ch))
						break
					}
					if in.ChildCount() != 0 {
						fail("child_kind", "%s child %d (%s) has children", k, i, core.KindName(ch))
						break
					}
				}
			case cm.HTMLBlockKind:
				for i, ch := range kids {
					in := ch.Inline()
					if in == nil || !(in.Kind() == cm.RawHTMLKind || in.Kind() == cm.IndentKind) || in.ChildCount() != 0 {
						code := "child_kind"
						if in.Kind() == cm.UnparsedKind {
							code = "unparsed"
						}
						fail(code, "HTMLBlock child %d is %s", i, core.KindName(ch))
						break
					}
				}
			case cm.BlockQuoteKind:
				for _, ch := range kids {
					cb := ch.Block()
					if cb == nil || cb.Kind() == cm.ListItemKind || cb.Kind() == cm.ListMarkerKind {
						ctx.Record("doc_rule:BlockQuote>"+core.KindName(ch), "%s", core.Quote(src))
					}
				}
			case cm.ThematicBreakKind, cm.ListMarkerKind:
				if cc != 0 {
					ctx.Record("doc_rule:"+k.String()+"_has_children", "%s", core.Quote(src))
				}
			}
		} else if in := n.Inline(); in != nil {
			k := in.Kind()
			ctx.Counters["prod:"+k.String()]++
			if k == cm.UnparsedKind {
				fail("unparsed", "an Unparsed node remains under %s", core.KindName(fr.parent))
			}
			ref := in.LinkReference()
			if (k == cm.LinkKind || k == cm.ImageKind) && ref != "" && (in.LinkDestination() != nil || in.LinkTitle() != nil) {
				fail("ref_with_dest", "%s has LinkReference %q and also a destination/title", k, ref)
			}
			switch k {
			case cm.LinkKind, cm.ImageKind:
				if k == cm.LinkKind {
					if inLink {
						fail("link_in_link", "a Link has a Link ancestor")
					}
					inLink = true
				}
				// tail: (LinkDestination? LinkTitle? | LinkLabel)?; those kinds nowhere else
				end := cc
				if end > 0 && kids[end-1].Inline().Kind() == cm.LinkLabelKind {
					end--
				} else {
					if end > 0 && kids[end-1].Inline().Kind() == cm.LinkTitleKind {
						end--
					}
					if end > 0 && kids[end-1].Inline().Kind() == cm.LinkDestinationKind {
						end--
					}
				}
				for i := 0; i < end; i++ {
					ck := kids[i].Inline().Kind()
					if ck == cm.LinkDestinationKind || ck == cm.LinkTitleKind || ck == cm.LinkLabelKind {
						fail("order", "%s children are %s", k, kindList(kids))
						break
					}
					if !isPhrasing(ck) {
						code := "child_kind"
						if ck == cm.UnparsedKind {
							code = "unparsed"
						}
						fail(code, "%s child %d is %s", k, i, core.KindName(kids[i]))
						break
					}
				}
			case cm.EmphasisKind, cm.StrongKind:
				// What a paragraph or heading holds, it holds at any depth: destinations, titles
				// and labels may only stand at the end of a link or image (judged since seeded
				// change C05-g: emphasis opened inside an image description and closed after
				// the image swallowed the image's destination).
				for i, ch := range kids {
					if ck := ch.Inline().Kind(); !isPhrasing(ck) {
						code := "child_kind"
						if ck == cm.UnparsedKind {
							code = "unparsed"
						}
						fail(code, "%s child %d is %s", k, i, core.KindName(ch))
						break
					}
				}
			case cm.CodeSpanKind:
				for i, ch := range kids {
					ck := ch.Inline().Kind()
					if !isPhrasing(ck) {
						fail("child_kind", "%s child %d is %s", k, i, core.KindName(ch))
						break
					}
					if ck != cm.TextKind && ck != cm.IndentKind && ck != cm.SoftLineBreakKind {
						ctx.Record("doc_rule:CodeSpan>"+core.KindName(ch), "%s", core.Quote(src))
					}
				}
			case cm.AutolinkKind:
				if cc != 1 || kids[0].Inline().Kind() != cm.TextKind {
					ctx.Record("doc_rule:Autolink_children", "%s %s", kindList(kids), core.Quote(src))
				}
			case cm.HTMLTagKind:
				if cc == 0 {
					ctx.Record("doc_rule:HTMLTag_empty", "%s", core.Quote(src))
				}
				for i, ch := range kids {
					ck := ch.Inline().Kind()
					if !isPhrasing(ck) {
						fail("child_kind", "%s child %d is %s", k, i, core.KindName(ch))
						break
					}
					if ck != cm.RawHTMLKind && ck != cm.IndentKind && ck != cm.SoftLineBreakKind {
						ctx.Record("doc_rule:HTMLTag>"+core.KindName(ch), "%s", core.Quote(src))
					}
				}
			case cm.InfoStringKind, cm.LinkDestinationKind, cm.LinkTitleKind:
				for _, ch := range kids {
					if ck := ch.Inline().Kind(); ck != cm.TextKind && ck != cm.CharacterReferenceKind && ck != cm.IndentKind && ck != cm.SoftLineBreakKind {
						ctx.Record("doc_rule:"+k.String()+">"+core.KindName(ch), "%s", core.Quote(src))
					}
				}
			case cm.LinkLabelKind:
				for _, ch := range kids {
					if ck := ch.Inline().Kind(); ck != cm.TextKind && ck != cm.IndentKind && ck != cm.SoftLineBreakKind {
						ctx.Record("doc_rule:LinkLabel>"+core.KindName(ch), "%s", core.Quote(src))
					}
				}
			case cm.TextKind, cm.RawHTMLKind, cm.SoftLineBreakKind, cm.HardLineBreakKind, cm.IndentKind, cm.CharacterReferenceKind:
				if cc != 0 {
					ctx.Record("doc_rule:"+k.String()+"_has_children", "%s", core.Quote(src))
				}
			}
		}
		for i := cc - 1; i >= 0; i-- {
			stack = append(stack, frame{n: kids[i], parent: n, inLink: inLink})
		}
	}
}

func kindList(kids []cm.Node) string {
	s := "["
	for i, k := range kids {
		if i > 0 {
			s += " "
		}
		s += core.KindName(k)
	}
	return s + "]"
}

// ------------------------------------------------------------------ C13

type c13 struct{}

func init() {
	core.Register(c13{})
	assumptions["C13"] = []string{
		"the weakest reading of each shape in the statement; container prefixes ('> ', indentation) may lie inside multi-line spans",
	}
}

func (c13) ID() string { return "C13" }
func (c13) Rule() string {
	return "per-kind predicate on Source[span] for Emphasis, Strong, CodeSpan, Link, Image, Autolink, HTMLTag, CharacterReference, HardLineBreak, ListMarker, ATXHeading, SetextHeading, FencedCodeBlock, BlockQuote at every node. Non-trivial: a node of one of these kinds below depth 1; distinct by input hash"
}
func (c13) Plan(tier string) []core.Segment {
	if tier == "thorough" {
		return treePlan(tier, "c02:7")
	}
	return treePlan(tier, "c02:5")
}
func (c13) Directed() []core.Directed { return treeDirected() }

var c13Kinds = []string{"EmphasisKind", "StrongKind", "CodeSpanKind", "LinkKind", "ImageKind", "AutolinkKind", "HTMLTagKind", "CharacterReferenceKind", "HardLineBreakKind", "ListMarkerKind", "ATXHeadingKind", "SetextHeadingKind", "FencedCodeBlockKind", "BlockQuoteKind"}

func (c13) Gates(tier string, counters map[string]int64) []string {
	var out []string
	for _, k := range c13Kinds {
		if counters["shape:"+k] < 1000 {
			out = append(out, fmt.Sprintf("fewer than 1000 %s nodes were checked (%d)", k, counters["shape:"+k]))
		}
	}
	return out
}

func (c13) Check(ctx *core.Ctx, c *core.Case) {
	for _, pd := range parseVariants(c, c.Seed%4 == 0) {
		for bi, rb := range pd.blocks {
			src := rb.Source
			core.WalkTree(rb.AsNode(), func(n, _ cm.Node, depth, _ int) {
				if ctx.Failed() {
					return
				}
				sp := n.Span()
				if !sp.IsValid() || sp.End > len(src) {
					return // C02's business
				}
				t := src[sp.Start:sp.End]
				kind := core.KindName(n)
				msg := shapeError(n, t)
				if msg == "-" {
					return
				}
				ctx.Counters["shape:"+kind]++
				if depth > 1 && pd.who == "parse" {
					ctx.NonTrivial()
				}
				if msg != "" {
					ctx.Violation("shape:"+kind, "%s: block %d: %s [%d,%d) selects %s: %s; Source=%s", pd.who, bi, kind, sp.Start, sp.End, core.Quote(t), msg, core.Quote(src))
				}
			})
			if ctx.Failed() {
				return
			}
		}
		if pd.who == "parse" && ctx.Verbose {
			ctx.Log("%s", core.DumpBlocks(pd.blocks, pd.refs))
		}
	}
}

func leadingRun(t []byte, c byte) int {
	i := 0
	for i < len(t) && t[i] == c {
		i++
	}
	return i
}

func trailingRun(t []byte, c byte) int {
	i := 0
	for i < len(t) && t[len(t)-1-i] == c {
		i++
	}
	return i
}

// shapeError returns "-" when the kind is not in the table, "" when the
// shape is right, and a description otherwise.
func shapeError(n cm.Node, t []byte) string {
	if b := n.Block(); b != nil {
		switch b.Kind() {
		case cm.ListMarkerKind:
			if len(t) == 1 && (t[0] == '-' || t[0] == '+' || t[0] == '*') {
				return ""
			}
			if len(t) >= 2 && len(t) <= 10 && (t[len(t)-1] == '.' || t[len(t)-1] == ')') {
				for _, ch := range t[:len(t)-1] {
					if ch < '0' || ch > '9' {
						return "not a bullet or 1-9 digits plus . or )"
					}
				}
				return ""
			}
			return "not a bullet or 1-9 digits plus . or )"
		case cm.ATXHeadingKind:
			lvl := b.HeadingLevel()
			if leadingRun(t, '#') != lvl || lvl == 0 {
				return fmt.Sprintf("does not start with exactly %d '#'", lvl)
			}
			return ""
		case cm.SetextHeadingKind:
			// t ends with (=+|-+)[ \t]* + optional line ending; what precedes the run on its line is SP, TAB, '>'
			e := len(t)
			if e > 0 && t[e-1] == '\n' {
				e--
			}
			if e > 0 && t[e-1] == '\r' {
				e--
			}
			for e > 0 && (t[e-1] == ' ' || t[e-1] == '\t') {
				e--
			}
			if e == 0 || (t[e-1] != '=' && t[e-1] != '-') {
				return "does not end in an underline"
			}
			ch := t[e-1]
			s := e
			for s > 0 && t[s-1] == ch {
				s--
			}
			for p := s; p > 0 && t[p-1] != '\n' && t[p-1] != '\r'; p-- {
				if c := t[p-1]; c != ' ' && c != '\t' && c != '>' {
					return "underline is preceded by other text on its line"
				}
			}
			if (ch == '=') != (b.HeadingLevel() == 1) {
				return fmt.Sprintf("underline %q with level %d", ch, b.HeadingLevel())
			}
			return ""
		case cm.FencedCodeBlockKind:
			if len(t) >= 3 && (t[0] == '`' || t[0] == '~') && leadingRun(t, t[0]) >= 3 {
				return ""
			}
			return "does not start with a fence"
		case cm.BlockQuoteKind:
			if len(t) >= 1 && t[0] == '>' {
				return ""
			}
			return "does not start with '>'"
		}
		return "-"
	}
	in := n.Inline()
	switch in.Kind() {
	case cm.EmphasisKind:
		if len(t) >= 2 && t[0] == t[len(t)-1] && (t[0] == '*' || t[0] == '_') {
			return ""
		}
		return "does not start and end with the same * or _"
	case cm.StrongKind:
		if len(t) >= 4 && (t[0] == '*' || t[0] == '_') && t[1] == t[0] && t[len(t)-1] == t[0] && t[len(t)-2] == t[0] {
			return ""
		}
		return "does not start and end with two of the same * or _"
	case cm.CodeSpanKind:
		k := leadingRun(t, '`')
		if k >= 1 && trailingRun(t, '`') == k && len(t) >= 2*k {
			return ""
		}
		return "backtick strings at the ends differ"
	case cm.LinkKind:
		if len(t) >= 2 && t[0] == '[' && (t[len(t)-1] == ']' || t[len(t)-1] == ')') {
			return ""
		}
		return "not [...] or [...](...)"
	case cm.ImageKind:
		if len(t) >= 3 && t[0] == '!' && t[1] == '[' && (t[len(t)-1] == ']' || t[len(t)-1] == ')') {
			return ""
		}
		return "not ![...] or ![...](...)"
	case cm.AutolinkKind, cm.HTMLTagKind:
		if len(t) >= 2 && t[0] == '<' && t[len(t)-1] == '>' {
			return ""
		}
		return "not <...>"
	case cm.CharacterReferenceKind:
		if len(t) >= 3 && t[0] == '&' && t[len(t)-1] == ';' {
			return ""
		}
		return "not &...;"
	case cm.HardLineBreakKind:
		if len(t) >= 1 && t[0] == '\\' {
			rest := t[1:]
			// "a backslash or 2+ spaces with the line ending": the line ending belongs to both
			// spellings (tightened after seeded change C13-h, which left a bare CR out of the span)
			if bytes.Equal(rest, []byte("\n")) || bytes.Equal(rest, []byte("\r")) || bytes.Equal(rest, []byte("\r\n")) {
				return ""
			}
			return "backslash not followed by exactly the line ending"
		}
		k := leadingRun(t, ' ')
		if k >= 2 {
			rest := t[k:]
			if bytes.Equal(rest, []byte("\n")) || bytes.Equal(rest, []byte("\r")) || bytes.Equal(rest, []byte("\r\n")) {
				return ""
			}
		}
		return "neither a backslash nor 2+ spaces with the line ending"
	}
	return "-"
}
