package mon

import (
	"verif/core"

	cm "zombiezen.com/go/commonmark"
)

// Tag predicates used across the renderer monitors.
func filterAll([]byte) bool  { return true }
func filterNone([]byte) bool { return false }

// nameSet returns a predicate rejecting exactly the given lower-case names.
func nameSet(names ...string) func([]byte) bool {
	set := map[string]bool{}
	for _, n := range names {
		set[n] = true
	}
	return func(tag []byte) bool { return set[string(tag)] }
}

var rawTextElements = []string{"script", "style", "title", "textarea", "xmp", "iframe", "noembed", "noframes", "plaintext"}

type namedFilter struct {
	id string
	f  func([]byte) bool
}

func stdFilters() []namedFilter {
	return []namedFilter{
		{"", nil},
		{"gfm", cm.FilterTagGFM},
		{"all", filterAll},
		{"none", filterNone},
		{"set:p,a,code,script", nameSet("p", "a", "code", "script")},
		{"set:em,strong,li,div,b", nameSet("em", "strong", "li", "div", "b")},
		{"set:rawtext+pre,img,h1", nameSet(append([]string{"pre", "img", "h1"}, rawTextElements...)...)},
	}
}

// allRenderConfigs is SoftBreakBehavior x IgnoreRaw x FilterTag.
func allRenderConfigs() []core.RenderCfg {
	var out []core.RenderCfg
	for _, soft := range []cm.SoftBreakBehavior{cm.SoftBreakPreserve, cm.SoftBreakSpace, cm.SoftBreakHarden} {
		for _, ign := range []bool{false, true} {
			for _, nf := range stdFilters() {
				out = append(out, core.RenderCfg{Soft: soft, IgnoreRaw: ign, Filter: nf.f, FilterID: nf.id})
			}
		}
	}
	return out
}
