package model

import (
	"strconv"
	"strings"
)

// line is one line of the serialisation under construction.
type line struct {
	text string
	// sp is the length of the structural prefix: the leading bytes of text that
	// the block parser consumes as container markers, their padding, or
	// indentation that is stripped (never content). All of them are ASCII.
	sp int
	// lazy: a paragraph continuation line that drops the markers of every
	// enclosing block quote (only chosen when all enclosing containers are quotes).
	lazy bool
	// dropped counts the containers whose prefix a lazy line has left out so far
	// (innermost first); an outer container may then go on leaving its own out,
	// or write it, which ends the laziness for every container further out.
	dropped int
}

// sctx is the serialisation context of a block.
type sctx struct {
	quoteOnly   bool // every enclosing container is a block quote
	inQuote     bool
	firstInItem bool // first block of a list item: no extra indentation
	inItem      bool // somewhere inside a list item (blank lines between blocks decide looseness there)
	flush       bool // the previous sibling is a list: indentation would make this block part of its last item
	interrupts  bool // no blank line separates this block from its previous sibling
}

// free reports whether the serializer may use its freedoms (not in the canonical profile).
func (g *gen) free() bool { return !g.p.Canonical }

// indent returns 0-3 spaces of leading indentation (mostly 0).
func (g *gen) indent(c sctx) string {
	if !g.free() || c.firstInItem || c.flush || g.r.Intn(4) != 0 {
		return ""
	}
	g.f("spelling:indent")
	return strings.Repeat(" ", g.r.Range(1, 3))
}

func (g *gen) spaces(lo, hi int) string {
	if !g.free() {
		return strings.Repeat(" ", lo)
	}
	if g.r.Intn(3) != 0 {
		return strings.Repeat(" ", lo)
	}
	return strings.Repeat(" ", g.r.Range(lo, hi))
}

func (g *gen) trailing() string {
	if !g.free() || g.r.Intn(5) != 0 {
		return ""
	}
	g.f("spelling:trailing-spaces")
	return strings.Repeat(" ", g.r.Range(1, 3))
}

func (g *gen) inlineLines(seq []*inl) []string {
	var sb strings.Builder
	g.inlineMD(seq, &sb)
	return strings.Split(sb.String(), "\n")
}

// blockLines returns the lines of one block (no line endings).
func (g *gen) blockLines(b *blk, c sctx) []line {
	switch b.k {
	case kPara:
		ls := g.inlineLines(b.inl)
		out := make([]line, len(ls))
		for i, l := range ls {
			ind := ""
			// a line that continues a code span, raw tag or title is marked with a NUL; its
			// leading spaces are stripped like those of any continuation line (F41)
			verbatim := strings.HasPrefix(l, "\x00")
			l = strings.TrimPrefix(l, "\x00")
			switch {
			case i == 0:
				ind = g.indent(c)
			case g.free() && g.r.Intn(5) == 0:
				ind = strings.Repeat(" ", g.r.Range(1, 7)) // stripped from continuation lines
				g.f("spelling:continuation-indent")
				if verbatim {
					g.f("spelling:continuation-indent-inside-construct")
				}
			}
			out[i] = line{text: ind + l, sp: len(ind)}
			if i > 0 && (c.inQuote || c.inItem) && (c.quoteOnly || !g.no("spelling:lazy-in-item")) && g.free() && ind == "" && startsWithWord(l) && g.r.Intn(5) == 0 {
				out[i].lazy = true
				g.f("spelling:lazy-continuation")
			}
		}
		if n := len(out); g.free() {
			out[n-1].text += g.trailing() // stripped at the end of a paragraph
		}
		return out
	case kATX:
		ind := g.indent(c)
		l := ind + strings.Repeat("#", b.level)
		if len(b.inl) > 0 {
			l += g.spaces(1, 3) + strings.ReplaceAll(strings.Join(g.inlineLines(b.inl), " "), "\x00", "")
		} else {
			l += g.trailing()
		}
		if b.closing {
			l += g.spaces(1, 2) + strings.Repeat("#", 1+b.level%3) + g.trailing()
		}
		return []line{{text: l, sp: len(ind)}}
	case kSetext:
		ls := g.inlineLines(b.inl)
		var out []line
		for i, l := range ls {
			ind := ""
			if i == 0 {
				ind = g.indent(c)
			} else if g.free() && g.r.Intn(5) == 0 {
				ind = strings.Repeat(" ", g.r.Range(1, 7)) // stripped like any paragraph continuation line
				g.f("spelling:continuation-indent-setext")
			}
			l = strings.TrimPrefix(l, "\x00")
			out = append(out, line{text: ind + l, sp: len(ind)})
		}
		ch, n := "=", 3+len(ls)%4
		if b.level == 2 {
			ch = "-"
		} else if g.free() && g.r.Intn(3) == 0 {
			n = g.r.Range(1, 2)
		}
		ind := g.indent(sctx{})
		if c.firstInItem && len(ls) > 0 {
			ind = g.indent(sctx{}) // the underline is not on the item's first line
		}
		return append(out, line{text: ind + strings.Repeat(ch, n) + g.trailing(), sp: len(ind)})
	case kBreak:
		ind := g.indent(c)
		return []line{{text: ind + b.brk + g.trailing(), sp: len(ind)}}
	case kFenced:
		ind := g.indent(c)
		f := strings.Repeat(string(b.fenceCh), b.fenceN)
		open := ind + f
		if b.info != "" {
			open += g.spaces(0, 2) + b.info + g.trailing()
			if !strings.HasPrefix(open[len(ind)+len(f):], " ") && b.fenceCh == '~' {
				// "~~~info" is fine, but keep a space for readability half of the time
			}
		}
		out := []line{{text: open, sp: len(ind)}}
		for _, l := range b.lines {
			if l == "" {
				out = append(out, line{})
			} else {
				// an opening fence indented k columns removes up to k columns from every content line
				out = append(out, line{text: ind + l, sp: len(ind)})
			}
		}
		closeInd, extra := ind, ""
		if g.free() && g.r.Intn(4) == 0 {
			closeInd = strings.Repeat(" ", g.r.Range(0, 3))
			extra = strings.Repeat(string(b.fenceCh), g.r.Range(0, 2))
			g.f("spelling:closing-fence-variation")
		}
		if b.unclosed {
			return out
		}
		return append(out, line{text: closeInd + f + extra + g.trailing(), sp: len(closeInd)})
	case kIndented:
		var out []line
		for _, l := range b.lines {
			if l == "" {
				out = append(out, line{})
			} else {
				out = append(out, line{text: "    " + l, sp: 4})
			}
		}
		return out
	case kQuote:
		var out []line
		inner := g.blocksLines(b.kids, false, sctx{quoteOnly: c.quoteOnly, inQuote: true, inItem: c.inItem})
		ind := g.indent(c)
		for _, l := range inner {
			if l.lazy && l.dropped > 0 && g.r.Intn(3) == 0 {
				l.lazy = false // this quote and everything outside it write their prefixes
				g.f("spelling:lazy-partial")
			}
			switch {
			case l.lazy:
				l.dropped++
				out = append(out, l)
			case l.text == "":
				if g.free() && g.r.Bool() {
					out = append(out, line{text: ind + "> ", sp: len(ind) + 2})
				} else {
					out = append(out, line{text: ind + ">", sp: len(ind) + 1})
				}
			case g.free() && l.text[0] != ' ' && l.text[0] != '\t' && g.r.Intn(6) == 0:
				// the optional space may be left out when the content does not start with a space
				out = append(out, line{text: ind + ">" + l.text, sp: len(ind) + 1 + l.sp})
				g.f("spelling:quote-no-space")
			default:
				out = append(out, line{text: ind + "> " + l.text, sp: len(ind) + 2 + l.sp})
			}
			if c.firstInItem {
				ind = g.indent(sctx{}) // only the item's first line is bound to the marker
			}
		}
		return out
	case kBullet, kOrdered:
		var out []line
		ind := g.indent(c)
		// A loose list needs one blank line between two items or between two blocks of an
		// item; the other items may follow each other directly.
		gaps := make([]bool, len(b.items))
		for i := 1; i < len(gaps); i++ {
			gaps[i] = b.loose
		}
		if b.loose && g.free() && !g.no("spelling:loose-partial") && len(b.items) >= 2 {
			multi, kept := false, 0
			for _, item := range b.items {
				multi = multi || len(item) >= 2
			}
			for i := 1; i < len(gaps); i++ {
				if g.r.Intn(3) == 0 {
					gaps[i] = false
					g.f("spelling:loose-partial")
				} else {
					kept++
				}
			}
			if !multi && kept == 0 {
				gaps[1+g.r.Intn(len(gaps)-1)] = true
			}
		}
		for i, item := range b.items {
			marker := string(b.delim)
			if b.k == kOrdered {
				marker = strconv.Itoa(b.start+i) + string(b.delim)
			}
			if gaps[i] {
				out = append(out, line{})
			}
			if len(item) == 0 {
				// an empty item: the marker alone (spaces after it change nothing)
				out = append(out, line{text: ind + marker + g.trailing(), sp: len(ind) + len(marker)})
				continue
			}
			n := 1
			// An item may begin with one blank line: its content then starts on the next
			// line, indented by the marker's width plus one. The first item of a list
			// that interrupts a paragraph may not.
			blankFirst := g.free() && !g.no("spelling:item-blank-first") && !(i == 0 && (c.interrupts || c.firstInItem)) && g.r.Intn(8) == 0
			if !blankFirst && g.free() && item[0].k != kIndented && g.r.Intn(3) == 0 {
				n = g.r.Range(2, 4)
				g.f("spelling:marker-padding")
			}
			pad := strings.Repeat(" ", n)
			cont := strings.Repeat(" ", len(ind)+len(marker)+n)
			inner := g.blocksLines(item, !b.loose, sctx{firstInItem: !blankFirst, inItem: true})
			if blankFirst {
				g.f("spelling:item-blank-first")
				out = append(out, line{text: ind + marker + g.trailing(), sp: len(ind) + len(marker)})
			}
			for j, l := range inner {
				if l.lazy && j > 0 && l.dropped > 0 && g.r.Intn(3) == 0 {
					l.lazy = false
					g.f("spelling:lazy-partial")
				}
				switch {
				case j == 0 && !blankFirst:
					out = append(out, line{text: ind + marker + pad + l.text, sp: len(ind) + len(marker) + n + l.sp})
				case l.text == "":
					out = append(out, line{})
				case l.lazy:
					l.dropped++
					out = append(out, l)
					g.f("spelling:lazy-out-of-item")
				default:
					out = append(out, line{text: cont + l.text, sp: len(cont) + l.sp})
				}
			}
			if i == 0 && c.firstInItem {
				ind = ind + "" // later items of a list that starts an item stay aligned with the first
			}
		}
		return out
	case kHTML:
		out := make([]line, len(b.lines))
		for i, l := range b.lines {
			out[i] = line{text: l}
		}
		return out
	case kRefDef:
		ind := g.indent(c)
		l := ind + "[" + b.label + "]:" + g.spaces(1, 2)
		if g.free() && g.r.Intn(4) == 0 && !strings.ContainsAny(b.dest, "<>") {
			l += "<" + b.dest + ">"
			g.f("spelling:refdef-angle")
		} else {
			l += b.dest
		}
		out := []line{{text: l, sp: len(ind)}}
		if b.hasTtl {
			q := [2]string{"\"", "\""}
			if g.free() {
				q = [][2]string{{"\"", "\""}, {"'", "'"}, {"(", ")"}}[g.r.Intn(3)]
			}
			t := q[0] + b.title + q[1]
			if g.free() && g.r.Intn(4) == 0 {
				ind2 := g.indent(sctx{})
				out = append(out, line{text: ind2 + t, sp: len(ind2)})
				g.f("spelling:refdef-title-next-line")
			} else {
				out[0].text += " " + t
			}
		}
		return out
	}
	panic("unknown block kind")
}

func startsWithWord(l string) bool {
	if l == "" {
		return false
	}
	c := l[0]
	return c >= 'a' && c <= 'z' || c >= 'A' && c <= 'Z' || c >= 0x80
}

// blocksLines joins sibling blocks. tight: no blank line between siblings
// (only used inside tight list items, whose content is restricted so that
// each block may directly follow the previous one).
func (g *gen) blocksLines(bs []*blk, tight bool, c sctx) []line {
	var out []line
	for i, b := range bs {
		if i > 0 && !tight {
			if !c.inItem && g.free() && g.adjacentOK(bs[i-1], b) && g.r.Intn(3) == 0 {
				g.f("spelling:no-blank-line-between-blocks")
			} else {
				out = append(out, line{})
			}
		}
		bc := c
		if i > 0 {
			bc.firstInItem = false
		}
		bc.flush = i > 0 && isList(bs[i-1])
		bc.interrupts = i > 0 && (len(out) == 0 || out[len(out)-1].text != "")
		out = append(out, g.blockLines(b, bc)...)
	}
	return out
}

// tabify rewrites structural spaces as tabs: a run of spaces inside the
// structural prefix is cut at tab stops, and a piece that ends on a tab stop may
// be written as one tab (a tab advances to the next tab stop, so the columns
// are unchanged; section 2.2 of the spec). Content is never touched.
func (g *gen) tabify(l line) string {
	if l.sp == 0 || !g.free() || g.no("spelling:tab") || g.r.Intn(6) != 0 {
		return l.text
	}
	t := []byte(l.text)
	sp := l.sp
	if sp > len(t) {
		sp = len(t)
	}
	// process tab stops from right to left so that byte indices left of the edit stay valid
	for stop := (sp / 4) * 4; stop >= 4; stop -= 4 {
		start := stop - 4
		// the piece is the maximal run of spaces ending at the stop, at most 4 wide
		a := stop
		for a > start && t[a-1] == ' ' {
			a--
		}
		if a == stop || g.r.Intn(3) == 0 {
			continue
		}
		t = append(t[:a], append([]byte{'\t'}, t[stop:]...)...)
		g.f("spelling:tab")
	}
	return string(t)
}

func (g *gen) serialize(top []*blk) string {
	lines := g.blocksLines(top, false, sctx{quoteOnly: true})
	var sb strings.Builder
	for _, l := range lines {
		sb.WriteString(g.tabify(l))
		sb.WriteString("\n")
	}
	return sb.String()
}

// adjacentOK reports whether next may directly follow prev without a blank line
// with the same meaning (each pair is fixed by a sentence of the spec: what can
// interrupt a paragraph, and that headings, breaks, closed fences and HTML blocks
// of kinds 1-5 end on their own line).
func (g *gen) adjacentOK(prev, next *blk) bool {
	breakOK := next.k == kBreak && (strings.HasPrefix(next.brk, "*") || strings.HasPrefix(next.brk, "_"))
	switch prev.k {
	case kPara:
		switch next.k {
		case kATX, kFenced, kQuote:
			return true
		case kBreak:
			return breakOK
		case kBullet:
			return len(next.items[0]) > 0 // an empty item cannot interrupt a paragraph
		case kOrdered:
			return next.start == 1 && len(next.items[0]) > 0
		case kHTML:
			return next.level != 7 // start condition 7 cannot interrupt a paragraph
		}
		return false
	case kATX, kSetext, kBreak, kFenced:
		if next.k == kPara || next.k == kSetext {
			return true
		}
		return next.k != kIndented || true
	case kQuote:
		// anything else could be read as a lazy continuation or would need more rules
		return next.k == kATX || next.k == kFenced || breakOK
	case kHTML:
		// kinds 1-5 end with their end condition; kind 6 needs the blank line
		if prev.level != 0 {
			return prev.level <= 5
		}
		l := prev.lines[0]
		return strings.HasPrefix(l, "<!--") || strings.HasPrefix(l, "<pre") || strings.HasPrefix(l, "<?")
	case kRefDef:
		if next.k == kRefDef {
			return true
		}
		return next.k == kPara && len(next.inl) > 0 && next.inl[0].k == iWord
	}
	return false
}
