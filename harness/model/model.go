// Package model generates abstract CommonMark documents together with (a) a
// CommonMark serialisation that uses only spellings whose meaning is fixed by
// the 0.30 specification and (b) the HTML that the specification's mapping
// assigns to the abstract document. See DESIGN.md section 6 C06 and Appendix C.
package model

import (
	"fmt"
	"html"
	"regexp"
	"strconv"
	"strings"

	"verif/core"
)

// Profile selects the serializer's freedom.
type Profile struct {
	Canonical bool // fmt-canonical: LF, no tabs, no extra indentation, N=1, one line per inline construct
	Depth     int  // container nesting limit (default 3)
	TopBlocks int  // upper bound of top-level blocks (default 5)
	MaxNodes  int
	// No lists constructs that must not be generated (feature names as in Doc.Features,
	// e.g. "block:html", "inline:image", plus "tightfirst:atx", "tightfirst:fenced").
	No map[string]bool
}

func (g *gen) no(name string) bool { return g.p.No[name] }

type kind int

const (
	kPara kind = iota
	kATX
	kSetext
	kBreak
	kFenced
	kIndented
	kQuote
	kBullet
	kOrdered
	kHTML
	kRefDef
)

type ikind int

const (
	iWord ikind = iota
	iEsc
	iEntity
	iEmph
	iStrong
	iCode
	iLink
	iRefLink
	iImage
	iAutolink
	iRaw
	iHard
	iSoft
	iSpace
)

type inl struct {
	k        ikind
	s        string // word, escaped char, entity source, code content, url, raw tag
	dec      string // decoded entity
	kids     []*inl
	dest     string
	title    string
	hasTitle bool
	refForm  int // 0 full, 1 collapsed, 2 shortcut
	label    string
	under    bool   // emphasis with '_'
	angle    bool   // <dest>
	tq       byte   // title quote: " ' (
	spaces   bool   // hard break spelled with spaces
	written  string // label as written in a reference link
	nlTitle  bool   // a line ending (instead of a space) separates destination and title
	tab      bool   // iSpace written as a tab (content, passes through)
}

type blk struct {
	k        kind
	inl      []*inl
	level    int
	lines    []string // code / html lines
	info     string
	kids     []*blk
	items    [][]*blk
	start    int
	delim    byte // '.' or ')' ; bullet char for bullets
	loose    bool
	label    string // refdef
	dest     string
	title    string
	hasTtl   bool
	closing  bool // ATX closing sequence
	unclosed bool // fenced code without a closing fence (last block of its container)
	fenceCh  byte
	fenceN   int
	brk      string
}

type Doc struct {
	Markdown string
	HTML     string
	Features map[string]int
	Nodes    int
}

type gen struct {
	oneLine bool // generating content that must stay on one line (ATX headings)
	r       *core.Rand
	p       Profile
	nodes   int
	defs    []*blk // reference definitions available for use
	feat    map[string]int
	eol     string
}

var words = []string{"foo", "bar", "baz", "qux", "Lorem", "ipsum", "dolor", "sit", "amet", "x", "y2", "alpha", "beta", "héllo", "naïve", "ß", "日本", "w1", "A", "I", "Z9", "code", "Tag"}

const escapable = "!\"#$%&'()*+,-./:;<=>?@[\\]^_`{|}~"

var entities = [][2]string{{"&amp;", "&"}, {"&lt;", "<"}, {"&gt;", ">"}, {"&quot;", "\""}, {"&copy;", "©"}, {"&#65;", "A"}, {"&#x41;", "A"}, {"&ouml;", "ö"}, {"&#1234;", "Ӓ"}, {"&nbsp;", " "}, {"&#35;", "#"}, {"&#42;", "*"}, {"&#x5B;", "["}, {"&#96;", "`"},
	// numeric references stand for the code point with that number (128-159 are not windows-1252);
	// zero, surrogates and numbers above U+10FFFF give U+FFFD
	{"&#128;", "\u0080"}, {"&#x9F;", "\u009f"}, {"&#150;", "\u0096"}, {"&#0;", "\ufffd"}, {"&#xD800;", "\ufffd"}, {"&#1114112;", "\ufffd"}, {"&#X41;", "A"},
	// long names, names standing for two code points
	{"&CounterClockwiseContourIntegral;", "\u2233"}, {"&ngE;", "\u2267\u0338"},
	// not references: no semicolon, no digits, too many digits, not a name of HTML5
	{"&nbsp", "&nbsp"}, {"&#;", "&#;"}, {"&#x;", "&#x;"}, {"&#12345678;", "&#12345678;"}, {"&#xabcdef0;", "&#xabcdef0;"}, {"&hi?;", "&hi?;"}, {"&unknownname;", "&unknownname;"}, {"&Amp;", "&Amp;"}}

var rawTags = []string{"<b>", "</b>", "<br/>", "<a href=\"x\">", "<i class='c'>", "<!-- c -->", "<?php x ?>", "<!DOCTYPE html>", "<![CDATA[x]]>", "<em data-x=y>", "<span\tid=\"s\">"}

func (g *gen) f(name string) { g.feat[name]++ }

// multiline reports whether an inline construct may span a line ending here.
func (g *gen) multiline() bool {
	return !g.oneLine && !g.no("inline:multiline") && g.r.Intn(3) == 0
}

func (g *gen) word() *inl { return &inl{k: iWord, s: words[g.r.Intn(len(words))]} }

// text run: words separated by single spaces, with occasional escapes/entities
func (g *gen) plainTokens(n int) []*inl {
	var out []*inl
	for i := 0; i < n; i++ {
		if i > 0 {
			out = append(out, &inl{k: iSpace})
		}
		pick := g.r.Intn(14)
		if ((pick == 0 || pick == 12) && g.no("inline:escape")) || ((pick == 1 || pick == 13) && g.no("inline:entity")) {
			pick = 5
		}
		if pick == 12 && g.no("inline:escape-alone") {
			pick = 0
		}
		if pick == 5 && g.r.Intn(8) == 0 && !g.no("inline:escape") {
			// digits followed by an escaped "." or ")": a list marker if the escape is lost
			out = append(out, &inl{k: iWord, s: []string{"1", "7", "42", "123456789"}[g.r.Intn(4)]}, &inl{k: iEsc, s: string(".)"[g.r.Intn(2)])})
			g.f("inline:escaped-list-marker")
			continue
		}
		switch pick {
		case 12:
			// an escaped character standing alone (at the start of a line it keeps a block rule from applying)
			c := escapable[g.r.Intn(len(escapable))]
			out = append(out, &inl{k: iEsc, s: string(c)})
			g.f("inline:escape-alone")
		case 13:
			e := entities[g.r.Intn(len(entities))]
			out = append(out, &inl{k: iEntity, s: e[0], dec: e[1]})
			g.f("inline:entity")
		case 0:
			c := escapable[g.r.Intn(len(escapable))]
			out = append(out, g.word(), &inl{k: iEsc, s: string(c)})
			g.f("inline:escape")
		case 1:
			e := entities[g.r.Intn(len(entities))]
			out = append(out, &inl{k: iEntity, s: e[0], dec: e[1]}, g.word())
			g.f("inline:entity")
		default:
			out = append(out, g.word())
		}
	}
	return out
}

// inlineSeq builds a sequence of inline tokens separated by spaces.
// depth limits nesting; inLink forbids links inside links.
func (g *gen) inlineSeq(n int, depth int, inLink bool, lineBreaks bool) []*inl {
	var out []*inl
	for i := 0; i < n; i++ {
		if i > 0 {
			if lineBreaks && !g.oneLine && g.r.Intn(4) == 0 && !g.no("inline:softbreak") {
				hb := g.r.Intn(4)
				if g.no("inline:hardbreak") {
					hb = 1
				}
				switch hb {
				case 0:
					out = append(out, &inl{k: iHard, spaces: g.r.Bool()})
					g.f("inline:hardbreak")
				default:
					out = append(out, &inl{k: iSoft})
					g.f("inline:softbreak")
				}
			} else if lineBreaks && !inLink && g.free() && !g.no("content:tab") && g.r.Intn(14) == 0 {
				// a tab between two tokens of a line is content and passes through
				out = append(out, &inl{k: iSpace, tab: true})
				g.f("content:tab-in-text")
			} else {
				out = append(out, &inl{k: iSpace})
			}
		}
		g.nodes++
		choice := g.r.Intn(20)
		if depth <= 0 && choice >= 6 && choice <= 9 {
			choice = 0
		}
		if name, ok := map[int]string{6: "inline:emph", 7: "inline:emph", 8: "inline:strong", 9: "inline:link", 10: "inline:code", 11: "inline:reflink", 12: "inline:image", 13: "inline:autolink", 14: "inline:rawtag"}[choice]; ok && g.no(name) {
			choice = 0
		}
		if choice == 11 && g.no("inline:link") {
			choice = 0
		}
		switch choice {
		case 6, 7:
			e := &inl{k: iEmph, under: g.r.Intn(3) == 0}
			e.kids = g.emphContent(depth-1, inLink)
			out = append(out, e)
			g.f("inline:emph")
		case 8:
			e := &inl{k: iStrong, under: g.r.Intn(3) == 0}
			e.kids = g.emphContent(depth-1, inLink)
			out = append(out, e)
			g.f("inline:strong")
		case 9:
			if inLink {
				out = append(out, g.word())
				break
			}
			if g.r.Intn(6) == 0 && !g.no("inline:escape") {
				out = append(out, &inl{k: iEsc, s: "!"}) // "\\![" must not become an image
				g.f("inline:escaped-bang-before-link")
			}
			out = append(out, g.link(depth-1))
		case 10:
			out = append(out, g.codeSpan())
		case 11:
			if inLink {
				out = append(out, g.word())
				break
			}
			if len(g.defs) > 0 && g.r.Bool() {
				out = append(out, g.refLink(depth-1))
			} else {
				out = append(out, g.link(depth-1))
			}
		case 12:
			out = append(out, g.image(depth-1))
		case 13:
			if inLink || i == 0 {
				out = append(out, g.word())
				break
			}
			switch g.r.Intn(4) {
			case 0:
				out = append(out, &inl{k: iAutolink, s: "http://example.com/" + words[g.r.Intn(5)] + "?a=b&c=d"})
			case 1:
				out = append(out, &inl{k: iAutolink, s: "user@example.com"})
			case 2:
				// characters that are percent-encoded in the href and escaped in the text; a scheme
				// is 2-32 characters; no backslash escapes and no entities inside an autolink
				out = append(out, &inl{k: iAutolink, s: []string{"http://a.b/c\\d[e]", "a+b.c-d://x/\"q\"", "mailto:x@y.z", "ab:", "http://a.b/&amp;c", "a-scheme-that-is-32-characters-x:y", "https://é.example/ü?`x`", "irc://h/*not*_em_"}[g.r.Intn(8)]})
				g.f("inline:autolink-variants")
			default:
				out = append(out, &inl{k: iAutolink, s: []string{"a.b-c_d+e@x-y.z9.w", "A!#$%&'*+/=?^_`{|}~-@b.c", "x@y", "1@2.3"}[g.r.Intn(4)]})
				g.f("inline:autolink-variants")
			}
			g.f("inline:autolink")
		case 14:
			if i == 0 {
				out = append(out, g.word())
				break
			}
			if g.multiline() {
				out = append(out, &inl{k: iRaw, s: []string{"<a\nhref=\"x\">", "<!-- multi\nline -->", "<i class='c'\nid=x>", "<?php\necho 1 ?>", "<em\n data-x=y>"}[g.r.Intn(5)]})
				g.f("inline:multiline-rawtag")
			} else {
				out = append(out, &inl{k: iRaw, s: rawTags[g.r.Intn(len(rawTags))]})
			}
			g.f("inline:rawtag")
		default:
			out = append(out, g.plainTokens(g.r.Range(1, 3))...)
		}
	}
	return out
}

// emphContent starts and ends with a plain word so that the delimiter runs
// are unambiguously left- resp. right-flanking.
func (g *gen) emphContent(depth int, inLink bool) []*inl {
	out := []*inl{g.word()}
	if !g.no("inline:emph-punct") && g.r.Intn(6) == 0 {
		// Content that starts and ends with punctuation: the opening run is still
		// left-flanking because white space or the start of the line precedes it, the
		// closing run right-flanking because white space or the end of the line follows
		// (tokens are separated by spaces; nothing is glued to an emphasis token).
		out[0].s = []string{"\"a\"", "(a)", "'x'", "(a", "b)", "¡hola!", "“q”"}[g.r.Intn(7)]
		g.f("inline:emph-punct")
		return out
	}
	if g.r.Intn(3) == 0 {
		sep := func() *inl {
			if g.multiline() {
				g.f("inline:multiline-emphasis")
				return &inl{k: iSoft}
			}
			return &inl{k: iSpace}
		}
		out = append(out, sep())
		out = append(out, g.inlineSeq(1, depth, inLink, false)...)
		out = append(out, sep(), g.word())
	}
	return out
}

// codeVariants: code spans whose delimiter is longer than one backtick or whose
// content meets the stripping rule (one space is removed from each end when the
// content both begins and ends with a space and is not all spaces). md is the
// Markdown, s the content as rendered.
var codeVariants = [][2]string{
	{"`` a`b ``", "a`b"}, {"`` `x` ``", "`x`"}, {"``` `` ```", "``"}, {"``a``", "a"}, {"`a``b`", "a``b"},
	{"`  a  `", " a "}, {"`  `", "  "}, {"` a`", " a"}, {"`a `", "a "}, {"`` ` ``", "`"}, {"``a`b``", "a`b"},
	{"` `` `", "``"}, {"`\\`", "\\"}, {"``\\` ``", "\\` "},
}

func (g *gen) codeSpan() *inl {
	g.f("inline:code")
	if !g.no("inline:code-variants") && g.r.Intn(4) == 0 {
		v := codeVariants[g.r.Intn(len(codeVariants))]
		g.f("inline:code-variants")
		return &inl{k: iCode, s: v[1], written: v[0]}
	}
	if !g.no("inline:code-variants") && g.multiline() && g.r.Intn(3) == 0 {
		// the line ending sits right after the opening or right before the closing backticks
		v := [][2]string{
			{"`\n\x00foo\n\x00`", "foo"}, {"`\n\x00foo`", " foo"}, {"`foo\n\x00`", "foo "},
			{"``\n\x00` x\n\x00``", "` x"}, {"`a\n\x00b\n\x00c`", "a b c"}, {"`` a\n\x00``", "a"},
		}[g.r.Intn(6)]
		g.f("inline:multiline-code")
		g.f("inline:multiline-code-at-delimiter")
		return &inl{k: iCode, s: v[1], written: v[0]}
	}
	parts := []string{"x", "a*b*", "<b>", "&amp;", "\\", "[l](u)", "a  b", "\"q\"", "_u_", "f()"}
	n := g.r.Range(1, 2)
	var sb strings.Builder
	for i := 0; i < n; i++ {
		if i > 0 {
			if g.multiline() {
				sb.WriteByte('\n') // a line ending inside a code span reads as a space
				g.f("inline:multiline-code")
			} else {
				sb.WriteByte(' ')
			}
		}
		sb.WriteString(parts[g.r.Intn(len(parts))])
	}
	c := sb.String()
	if strings.HasSuffix(c, "\\") {
		c += "z" // a backslash before the closing backtick is fine, but keep it simple
	}
	return &inl{k: iCode, s: c}
}

var destChars = []string{"/url", "/a/b.c", "http://x.y/z?q=1#f", "rel", "/p(a)", "#frag", "/%20x", "/a\\(b", "/c\\)d", "/u&#128;x&ouml;", "/x%41", "/caf%C3%A9", "/100%", "/q%2", "/%zz%4g", "/é"}

func (g *gen) destTitle(in *inl) {
	in.dest = destChars[g.r.Intn(len(destChars))]
	if g.r.Intn(4) == 0 {
		in.angle = true
		if g.r.Bool() {
			in.dest = "/with space"
		}
	}
	if g.r.Intn(3) == 0 {
		in.hasTitle = true
		in.tq = "\"'("[g.r.Intn(3)]
		in.title = []string{"title", "a b", "T &amp; U", "it\\\"s", "x*y", "", "t&#150;u &#0;"}[g.r.Intn(7)]
		if g.multiline() {
			in.title = []string{"multi\nline", "three\nline\ntitle", "it\\\"s\nmulti"}[g.r.Intn(3)]
			g.f("inline:multiline-title")
		}
		if g.multiline() {
			in.nlTitle = true
			g.f("inline:title-on-next-line")
		}
	}
}

func (g *gen) link(depth int) *inl {
	g.f("inline:link")
	l := &inl{k: iLink}
	ml := g.multiline()
	l.kids = g.inlineSeq(g.r.Range(1, 3), depth, true, ml)
	if ml {
		g.f("inline:multiline-linktext")
	}
	g.destTitle(l)
	return l
}

func (g *gen) image(depth int) *inl {
	g.f("inline:image")
	l := &inl{k: iImage}
	l.kids = g.inlineSeq(g.r.Range(1, 3), depth, false, g.multiline())
	// no images/links nested in the description in this profile, to keep alt text simple
	for _, k := range l.kids {
		if k.k == iLink || k.k == iRefLink || k.k == iImage || k.k == iAutolink || k.k == iRaw {
			*k = *g.word()
		}
	}
	g.destTitle(l)
	return l
}

func (g *gen) refLink(depth int) *inl {
	g.f("inline:reflink")
	d := g.defs[g.r.Intn(len(g.defs))]
	l := &inl{k: iRefLink, refForm: g.r.Intn(3), label: d.label, dest: d.dest, title: d.title, hasTitle: d.hasTtl}
	l.written = labelVariant(g.r, d.label)
	if l.refForm == 0 {
		l.kids = g.inlineSeq(1, depth, true, false)
	}
	return l
}

// ---------------------------------------------------------------- blocks

// fixLineStarts makes sure no line of a multi-line inline run starts with a raw
// tag or autolink (comments, declarations etc. would start an HTML block and
// interrupt the paragraph). It returns whether the sequence ends right after a line break.
func (g *gen) fixLineStarts(seq []*inl) {
	atStart := false
	var walk func(seq []*inl)
	walk = func(seq []*inl) {
		for _, in := range seq {
			switch in.k {
			case iSoft, iHard:
				atStart = true
				continue
			case iRaw, iAutolink:
				if atStart {
					*in = *g.word()
				}
			}
			if len(in.kids) > 0 && (in.k == iEmph || in.k == iStrong || in.k == iLink || in.k == iImage || in.k == iRefLink) {
				// the construct's own opening delimiter starts the line; its children follow it
				atStart = false
				walk(in.kids)
			}
			atStart = false
			if in.k == iCode && strings.Contains(in.s, "\n") {
				atStart = false
			}
		}
	}
	walk(seq)
}

func (g *gen) paragraph(lines bool) *blk {
	g.f("block:paragraph")
	b := &blk{k: kPara}
	b.inl = g.inlineSeq(g.r.Range(1, 5), 2, false, lines)
	g.fixLineStarts(b.inl)
	// first token of the paragraph must be harmless at the start of a line
	if k := b.inl[0].k; k == iAutolink || k == iRaw {
		b.inl = append([]*inl{g.word(), {k: iSpace}}, b.inl...)
	}
	if !g.no("para:equals-first") && g.r.Intn(30) == 0 {
		// A paragraph may start with what would be a setext underline if text preceded it:
		// after a definition, a heading, a break or a blank line it is plain text
		// ("[foo]: /url" / "===" is a definition and the paragraph "===").
		eq := &inl{k: iWord, s: []string{"===", "=", "== =="}[g.r.Intn(3)]}
		switch {
		case lines && !g.oneLine && g.r.Bool():
			b.inl = append([]*inl{eq, {k: iSoft}}, b.inl...) // alone on the first line
		case g.r.Bool():
			b.inl = []*inl{eq} // the whole paragraph
		default:
			b.inl = append([]*inl{eq, {k: iSpace}}, b.inl...)
		}
		g.f("para:equals-first")
	}
	return b
}

func (g *gen) codeLines(allowBlank bool) []string { return g.codeLines0(allowBlank) }

// codeLinesFor: fenceCh/fenceN describe the fence the lines will sit in (0: an
// indented block, where any line is allowed); runs of the fence character
// shorter than the fence are content.
func (g *gen) codeLinesFor(allowBlank bool, fenceCh byte, fenceN int) []string {
	lines := g.codeLines0(allowBlank)
	if g.no("code:fence-like-lines") {
		return lines
	}
	for i := range lines {
		if lines[i] == "" || g.r.Intn(4) != 0 {
			continue
		}
		switch {
		case fenceN == 0:
			lines[i] = []string{"```", "````", "~~~", "  ```", "  two", "   three", "``` x", "~~~~~"}[g.r.Intn(8)]
			g.f("code:fence-like-lines")
		case fenceN >= 4:
			lines[i] = strings.Repeat(string(fenceCh), fenceN-1)
			g.f("code:fence-like-lines")
		}
	}
	return lines
}

func (g *gen) codeLines0(allowBlank bool) []string {
	pool := []string{"code", "x := 1", "  indented", "<b>&amp;", "* not a list", "# not a heading", "> q", "a\\*b", "\tTab", "trés", "[l](u)", "    deep", "a\tb", "x \t y"}
	n := g.r.Range(1, 4)
	var out []string
	for i := 0; i < n; i++ {
		if allowBlank && i > 0 && i < n-1 && g.r.Intn(4) == 0 {
			out = append(out, "")
			continue
		}
		out = append(out, pool[g.r.Intn(len(pool))])
	}
	return out
}

func (g *gen) block(depth int, inListItemFirst bool, afterPara bool) *blk {
	for tries := 0; ; tries++ {
		nd, nf := len(g.defs), len(g.feat)
		_ = nf
		b := g.block1(depth, inListItemFirst, afterPara)
		name := map[kind]string{kPara: "block:paragraph", kATX: "block:atx", kSetext: "block:setext", kBreak: "block:break", kFenced: "block:fenced", kIndented: "block:indented", kQuote: "block:quote", kBullet: "block:bullet", kOrdered: "block:ordered", kHTML: "block:html", kRefDef: "block:refdef"}[b.k]
		if !g.no(name) || tries > 50 {
			return b
		}
		g.defs = g.defs[:nd] // the rejected block is dropped before anything could refer to it
	}
}

func (g *gen) block1(depth int, inListItemFirst bool, afterPara bool) *blk {
	g.nodes++
	c := g.r.Intn(22)
	if depth <= 0 && c >= 14 && c <= 19 {
		c = g.r.Intn(8)
	}
	switch c {
	case 0, 1, 2, 3, 4:
		return g.paragraph(true)
	case 5, 6:
		g.f("block:atx")
		b := &blk{k: kATX, level: g.r.Range(1, 6), closing: g.r.Intn(3) == 0}
		g.oneLine = true
		b.inl = g.inlineSeq(g.r.Range(1, 3), 1, false, false)
		g.oneLine = false
		if !g.no("atx:number-first") && g.r.Intn(12) == 0 {
			// heading text that would be a list marker at the start of a line: "# 1. Scope"
			b.inl = append([]*inl{{k: iWord, s: []string{"1.", "2)", "10.", "123456789."}[g.r.Intn(4)]}, {k: iSpace}}, b.inl...)
			g.f("atx:number-first")
		}
		if !g.no("atx:empty") && g.r.Intn(10) == 0 {
			b.inl = nil // "#", "## ##": a heading without content (what was generated for it is plain inline content, nothing refers to it)
			g.f("atx:empty")
		}
		return b
	case 7:
		g.f("block:setext")
		b := &blk{k: kSetext, level: g.r.Range(1, 2)}
		b.inl = g.inlineSeq(g.r.Range(1, 3), 1, false, true)
		if k := b.inl[0].k; k != iWord {
			b.inl = append([]*inl{g.word(), {k: iSpace}}, b.inl...)
		}
		g.fixLineStarts(b.inl)
		// no hard break at the very end (it is never last because of the generator) and
		// the content must not be consumable as a reference definition: it starts with a word
		return b
	case 8:
		g.f("block:break")
		return &blk{k: kBreak, brk: []string{"***", "___", "* * *", "_  _  _", "*****", "---", "- - -"}[g.r.Intn(7)]}
	case 9, 10:
		g.f("block:fenced")
		b := &blk{k: kFenced, fenceCh: "`~"[g.r.Intn(2)], fenceN: g.r.Range(3, 5)}
		if !g.no("fence:very-long") && g.r.Intn(40) == 0 {
			// the spec does not bound the length of a fence; a shorter run of the same
			// character inside the block is content (seeded change C15-k kept the opening
			// length in eight bits)
			b.fenceN = 254 + g.r.Range(0, 8)
			g.f("fence:very-long")
		}
		b.lines = g.codeLinesFor(true, b.fenceCh, b.fenceN)
		if g.r.Bool() {
			b.info = []string{"go", "python", "c++", "a&amp;b", "x\\*y"}[g.r.Intn(5)]
		}
		if g.r.Intn(6) == 0 {
			b.lines = nil
		}
		return b
	case 11:
		g.f("block:indented")
		return &blk{k: kIndented, lines: g.codeLinesFor(true, 0, 0)}
	case 12:
		g.f("block:html")
		return g.htmlBlock()
	case 13:
		return g.refDef()
	case 14, 15:
		g.f("block:quote")
		b := &blk{k: kQuote}
		b.kids = g.blocks(g.r.Range(1, 3), depth-1)
		g.maybeUnclosed(b.kids)
		return b
	default:
		return g.list(depth - 1)
	}
}

// htmlSamples2: HTML blocks of every start condition. hk is the condition's number in
// section 4.6 of the spec: 1-5 end on the line that holds their end condition (all samples
// hold it in their last line), 6 and 7 end before a blank line, and 7 cannot interrupt a
// paragraph. Every line is verbatim content.
var htmlSamples2 = []struct {
	hk    int
	lines []string
}{
	{1, []string{"<script>", "let x = '*a*' < 1;", "", "</script>"}},
	{1, []string{"<style>p{color:red}</style> *same line*"}},
	{1, []string{"<TEXTAREA rows=2>", "", "  keep", "</textarea> tail"}},
	{2, []string{"<!-- one line --> *tail*"}},
	{3, []string{"<?x", "", "?> tail"}},
	{4, []string{"<!DOCTYPE html>"}},
	{4, []string{"<!X", "", "y> tail"}},
	{5, []string{"<![CDATA[", "*x*", "", "]]> tail"}},
	{6, []string{"</div>", "*text*"}},
	{6, []string{"<HR/>"}},
	{6, []string{"<p", "class=c>", "**text**"}},
	{6, []string{"<h2>t</h2> *x*"}},
	{7, []string{"<custom-el a=\"b\" c>", "*text*"}},
	{7, []string{"</custom-el>"}},
	{7, []string{"<a href=\"x\">", "*text*", "</a>"}},
	{7, []string{"<em/>  "}},
}

func (g *gen) htmlBlock() *blk {
	b := &blk{k: kHTML}
	if !g.no("html:kinds") && g.r.Intn(2) == 0 {
		smp := htmlSamples2[g.r.Intn(len(htmlSamples2))]
		b.lines, b.level = smp.lines, smp.hk
		g.f("html:kind" + strconv.Itoa(smp.hk))
		return b
	}
	switch g.r.Intn(6) {
	case 0:
		b.lines = []string{"<div class=\"c\">", "*not emphasis*", "</div>"}
	case 1:
		b.lines = []string{"<!-- a comment", "", "with a blank line -->"}
	case 2:
		b.lines = []string{"<pre>", "  keep *this*", "", "verbatim</pre>"}
	case 3:
		b.lines = []string{"<table>", "<tr><td>x</td></tr>", "</table>"}
	case 4:
		b.lines = []string{"<?php", "echo 1;", "?>"}
	default:
		b.lines = []string{"<p>raw &amp; paragraph</p>"}
	}
	return b
}

func (g *gen) refDef() *blk {
	g.f("block:refdef")
	b := &blk{k: kRefDef, label: "ref" + strconv.Itoa(len(g.defs)+1)}
	switch g.r.Intn(6) {
	case 0, 1:
		b.label = "Ref " + []string{"one", "two", "Three"}[g.r.Intn(3)] + " " + strconv.Itoa(len(g.defs)+1)
	case 2:
		if !g.no("label:punctuation") {
			// punctuation that has no inline meaning of its own inside brackets
			b.label = []string{"a=b", "v1.0", "c#", "a+b", "x-y", "q&a", "50%", "it's"}[g.r.Intn(8)] + " " + strconv.Itoa(len(g.defs)+1)
			g.f("label:punctuation")
		}
	}
	b.dest = destChars[g.r.Intn(len(destChars)-1)]
	if g.r.Bool() {
		b.hasTtl, b.title = true, []string{"rt", "ref title", "R &amp; S"}[g.r.Intn(3)]
	}
	g.defs = append(g.defs, b)
	return b
}

func (g *gen) list(depth int) *blk {
	b := &blk{k: kBullet, delim: "-+*"[g.r.Intn(3)]}
	if g.r.Intn(3) == 0 {
		b.k, b.delim = kOrdered, ".)"[g.r.Intn(2)]
		b.start = []int{1, 1, 0, 2, 7, 10, 42, 123456789}[g.r.Intn(8)]
		g.f("block:ordered")
	} else {
		g.f("block:bullet")
	}
	b.loose = g.r.Intn(3) == 0
	n := g.r.Range(1, 4)
	for i := 0; i < n; i++ {
		var item []*blk
		if !g.no("list:empty-item") && g.r.Intn(12) == 0 {
			g.f("list:empty-item")
			b.items = append(b.items, nil)
			continue
		}
		if b.loose {
			item = g.blocks(g.r.Range(1, 3), depth)
		} else {
			// tight: a first block, optionally followed by one block that may follow it without a blank line
			tf := g.r.Intn(6)
			if (tf == 0 && (g.no("tightfirst:atx") || g.no("block:atx"))) || (tf == 1 && (g.no("tightfirst:fenced") || g.no("block:fenced"))) {
				tf = 5
			}
			switch tf {
			case 0:
				g.oneLine = true
				item = append(item, &blk{k: kATX, level: g.r.Range(1, 6), inl: g.inlineSeq(1, 0, false, false)})
				g.oneLine = false
			case 1:
				item = append(item, &blk{k: kFenced, fenceCh: "`~"[g.r.Intn(2)], fenceN: 3, lines: g.codeLines(false)})
			default:
				item = append(item, g.paragraph(true))
			}
			if depth > 0 && g.r.Intn(3) == 0 && !g.no("tightsecond") {
				ts := g.r.Intn(4)
				if (ts == 0 && g.no("block:quote")) || (ts == 1 && g.no("block:fenced")) {
					ts = 3
				}
				switch ts {
				case 0:
					q := &blk{k: kQuote, kids: []*blk{g.paragraph(false)}}
					item = append(item, q)
				case 1:
					item = append(item, &blk{k: kFenced, fenceCh: '`', fenceN: 3, lines: g.codeLines(true)})
				default:
					nl := g.list(depth - 1)
					if nl.k == kOrdered {
						nl.start = 1 // only an ordered list starting at 1 can interrupt a paragraph
					}
					if len(nl.items[0]) == 0 {
						nl.items[0] = []*blk{g.paragraph(false)} // an empty item cannot interrupt a paragraph
					}
					item = append(item, nl)
				}
			}
		}
		if item[0].k == kBreak {
			item[0].brk = "___" // "- ---" or "* * *" would be a thematic break, not an item
		}
		if l := item[0]; isList(l) && len(l.items[0]) == 0 {
			// "- -" is fine but "- - -" would be a thematic break: a list that shares its
			// first line with an item marker does not begin with an empty item
			l.items[0] = []*blk{g.paragraph(false)}
		}
		b.items = append(b.items, item)
	}
	return b
}

func (g *gen) blocks(n int, depth int) []*blk {
	var out []*blk
	for i := 0; i < n && g.nodes < g.p.MaxNodes; i++ {
		b := g.block(depth, false, false)
		if len(out) > 0 {
			prev := out[len(out)-1]
			// never indented code right after a list or another indented block; never two lists in a row
			if (b.k == kIndented && (prev.k == kBullet || prev.k == kOrdered || prev.k == kIndented)) ||
				((b.k == kBullet || b.k == kOrdered) && (prev.k == kBullet || prev.k == kOrdered)) {
				out = append(out, g.paragraph(true)) // keep them apart (nothing generated is ever dropped)
			}
		}
		out = append(out, b)
		if b.k == kRefDef && !g.no("refdef:shadowed-duplicate") && g.r.Intn(6) == 0 {
			// a later definition of the same label (spelled in another case) in the same container:
			// the first one wins, so nothing refers to this one (seeded change C06-l)
			out = append(out, &blk{k: kRefDef, label: strings.ToUpper(b.label), dest: "/shadowed", hasTtl: true, title: "shadowed"})
			g.f("refdef:shadowed-duplicate")
		}
	}
	if len(out) == 0 {
		out = append(out, g.paragraph(false))
	}
	return out
}

// ---------------------------------------------------------------- serialisation

func (g *gen) inlineMD(seq []*inl, sb *strings.Builder) {
	for _, in := range seq {
		switch in.k {
		case iWord:
			sb.WriteString(in.s)
		case iSpace:
			if in.tab {
				sb.WriteByte('\t')
			} else {
				sb.WriteByte(' ')
			}
		case iEsc:
			sb.WriteByte('\\')
			sb.WriteString(in.s)
		case iEntity:
			sb.WriteString(in.s)
		case iEmph:
			d := "*"
			if in.under {
				d = "_"
			}
			sb.WriteString(d)
			g.inlineMD(in.kids, sb)
			sb.WriteString(d)
		case iStrong:
			d := "**"
			if in.under {
				d = "__"
			}
			sb.WriteString(d)
			g.inlineMD(in.kids, sb)
			sb.WriteString(d)
		case iCode:
			if in.written != "" {
				sb.WriteString(in.written)
				break
			}
			sb.WriteString("`" + strings.ReplaceAll(in.s, "\n", "\n\x00") + "`")
		case iLink, iImage:
			if in.k == iImage {
				sb.WriteByte('!')
			}
			sb.WriteByte('[')
			g.inlineMD(in.kids, sb)
			sb.WriteString("](")
			if in.angle {
				sb.WriteString("<" + in.dest + ">")
			} else {
				sb.WriteString(in.dest)
			}
			if in.hasTitle {
				if in.nlTitle {
					sb.WriteByte('\n')
				} else {
					sb.WriteByte(' ')
				}
				t := strings.ReplaceAll(in.title, "\n", "\n\x00")
				switch in.tq {
				case '"':
					sb.WriteString("\"" + t + "\"")
				case '\'':
					sb.WriteString("'" + t + "'")
				default:
					sb.WriteString("(" + t + ")")
				}
			}
			sb.WriteByte(')')
		case iRefLink:
			switch in.refForm {
			case 0:
				sb.WriteByte('[')
				g.inlineMD(in.kids, sb)
				sb.WriteString("][" + in.written + "]")
			case 1:
				sb.WriteString("[" + in.written + "][]")
			default:
				sb.WriteString("[" + in.written + "]")
			}
		case iAutolink:
			sb.WriteString("<" + in.s + ">")
		case iRaw:
			sb.WriteString(strings.ReplaceAll(in.s, "\n", "\n\x00"))
		case iHard:
			if in.spaces {
				sb.WriteString("  \n")
			} else {
				sb.WriteString("\\\n")
			}
		case iSoft:
			sb.WriteString("\n")
		}
	}
}

func labelVariant(r *core.Rand, l string) string {
	switch r.Intn(4) {
	case 0:
		return strings.ToUpper(l)
	case 1:
		return strings.ToLower(l)
	}
	return l
}

func escText(s string) string { return html.EscapeString(s) }

func plainText(seq []*inl, sb *strings.Builder) {
	for _, in := range seq {
		switch in.k {
		case iWord:
			sb.WriteString(in.s)
		case iSpace, iHard, iSoft:
			if in.k == iSpace && in.tab {
				sb.WriteByte('\t')
			} else {
				sb.WriteByte(' ')
			}
		case iEsc:
			sb.WriteString(in.s)
		case iEntity:
			sb.WriteString(in.dec)
		case iCode:
			sb.WriteString(strings.ReplaceAll(in.s, "\n", " "))
		case iRefLink:
			if in.refForm != 0 {
				sb.WriteString(in.written)
			} else {
				plainText(in.kids, sb)
			}
		default:
			plainText(in.kids, sb)
		}
	}
}

func unescapeMD(s string) string {
	// backslash escapes and the entities used in titles / info strings
	var sb strings.Builder
	for i := 0; i < len(s); i++ {
		if s[i] == '\\' && i+1 < len(s) && strings.IndexByte(escapable, s[i+1]) >= 0 {
			sb.WriteByte(s[i+1])
			i++
			continue
		}
		sb.WriteByte(s[i])
	}
	return decodeRefs(sb.String())
}

var reNumericRef = regexp.MustCompile(`&#(?:[0-9]{1,7}|[xX][0-9a-fA-F]{1,6});`)

// decodeRefs decodes character references the way CommonMark defines them:
// named ones by the HTML5 table, numeric ones as the code point with that number.
func decodeRefs(s string) string {
	s = reNumericRef.ReplaceAllStringFunc(s, func(m string) string {
		d, base := m[2:len(m)-1], 10
		if d[0] == 'x' || d[0] == 'X' {
			d, base = d[1:], 16
		}
		n, err := strconv.ParseUint(d, base, 32)
		if err != nil || n == 0 || n > 0x10FFFF || n >= 0xD800 && n <= 0xDFFF {
			return "\ufffd"
		}
		if n == '&' {
			return "&amp;" // decoded below
		}
		return string(rune(n))
	})
	return html.UnescapeString(s)
}

func isHexDigit(c byte) bool {
	return c >= '0' && c <= '9' || c >= 'a' && c <= 'f' || c >= 'A' && c <= 'F'
}

func pctEncode(s string) string {
	const keep = ";/?:@&=+$,-_.!~*'()#"
	var sb strings.Builder
	for i := 0; i < len(s); i++ {
		c := s[i]
		switch {
		case c == '%' && i+2 < len(s) && isHexDigit(s[i+1]) && isHexDigit(s[i+2]):
			sb.WriteByte(c) // an existing escape is kept; a stray per cent sign becomes %25
		case c < 0x80 && (c >= 'a' && c <= 'z' || c >= 'A' && c <= 'Z' || c >= '0' && c <= '9' || strings.IndexByte(keep, c) >= 0):
			sb.WriteByte(c)
		default:
			fmt.Fprintf(&sb, "%%%02X", c)
		}
	}
	return sb.String()
}

func (g *gen) inlineHTML(seq []*inl, sb *strings.Builder) {
	for _, in := range seq {
		switch in.k {
		case iWord:
			sb.WriteString(escText(in.s))
		case iSpace:
			if in.tab {
				sb.WriteByte('\t')
			} else {
				sb.WriteByte(' ')
			}
		case iEsc:
			sb.WriteString(escText(in.s))
		case iEntity:
			sb.WriteString(escText(in.dec))
		case iEmph:
			sb.WriteString("<em>")
			g.inlineHTML(in.kids, sb)
			sb.WriteString("</em>")
		case iStrong:
			sb.WriteString("<strong>")
			g.inlineHTML(in.kids, sb)
			sb.WriteString("</strong>")
		case iCode:
			sb.WriteString("<code>" + escText(strings.ReplaceAll(in.s, "\n", " ")) + "</code>")
		case iLink, iRefLink:
			sb.WriteString("<a href=\"" + escText(pctEncode(unescapeMD(in.dest))) + "\"")
			if in.hasTitle {
				sb.WriteString(" title=\"" + escText(unescapeMD(in.title)) + "\"")
			}
			sb.WriteString(">")
			if in.k == iRefLink && in.refForm != 0 {
				sb.WriteString(escText(in.written))
			} else {
				g.inlineHTML(in.kids, sb)
			}
			sb.WriteString("</a>")
		case iImage:
			sb.WriteString("<img src=\"" + escText(pctEncode(unescapeMD(in.dest))) + "\"")
			if in.hasTitle {
				sb.WriteString(" title=\"" + escText(unescapeMD(in.title)) + "\"")
			}
			var alt strings.Builder
			plainText(in.kids, &alt)
			sb.WriteString(" alt=\"" + escText(alt.String()) + "\">")
		case iAutolink:
			href := pctEncode(in.s)
			if !strings.Contains(in.s, ":") {
				href = "mailto:" + href // an e-mail autolink
			}
			sb.WriteString("<a href=\"" + escText(href) + "\">" + escText(in.s) + "</a>")
		case iRaw:
			sb.WriteString(in.s)
		case iHard:
			sb.WriteString("<br>\n")
		case iSoft:
			sb.WriteString("\n")
		}
	}
}

// ---------------------------------------------------------------- block serialisation

func isList(b *blk) bool { return b.k == kBullet || b.k == kOrdered }

func (g *gen) codeHTML(lines []string) string {
	var sb strings.Builder
	for _, l := range lines {
		sb.WriteString(escText(l))
		sb.WriteString("\n")
	}
	return sb.String()
}

func (g *gen) blockHTML(b *blk, tightItem bool, sb *strings.Builder) {
	switch b.k {
	case kPara:
		if !tightItem {
			sb.WriteString("<p>")
		}
		g.inlineHTML(b.inl, sb)
		if !tightItem {
			sb.WriteString("</p>")
		}
	case kATX, kSetext:
		h := "h" + strconv.Itoa(b.level)
		sb.WriteString("<" + h + ">")
		if b.k == kATX {
			// an ATX heading is one line: breaks cannot occur
			g.inlineHTML(b.inl, sb)
		} else {
			g.inlineHTML(b.inl, sb)
		}
		sb.WriteString("</" + h + ">")
	case kBreak:
		sb.WriteString("<hr>")
	case kFenced:
		sb.WriteString("<pre><code")
		if w := strings.Fields(unescapeMD(b.info)); len(w) > 0 {
			sb.WriteString(" class=\"language-" + escText(w[0]) + "\"")
		}
		sb.WriteString(">" + g.codeHTML(b.lines) + "</code></pre>")
	case kIndented:
		sb.WriteString("<pre><code>" + g.codeHTML(b.lines) + "</code></pre>")
	case kQuote:
		sb.WriteString("<blockquote>")
		for _, k := range b.kids {
			g.blockHTML(k, false, sb)
		}
		sb.WriteString("</blockquote>")
	case kBullet, kOrdered:
		tag := "ul"
		if b.k == kOrdered {
			tag = "ol"
			if b.start != 1 {
				sb.WriteString("<ol start=\"" + strconv.Itoa(b.start) + "\">")
			} else {
				sb.WriteString("<ol>")
			}
		} else {
			sb.WriteString("<ul>")
		}
		tight := g.isTight(b)
		for _, item := range b.items {
			sb.WriteString("<li>")
			for _, k := range item {
				g.blockHTML(k, tight, sb)
			}
			sb.WriteString("</li>")
		}
		sb.WriteString("</" + tag + ">")
	case kHTML:
		for _, l := range b.lines {
			sb.WriteString(l)
			sb.WriteString("\n")
		}
	case kRefDef:
	}
}

// isTight applies the spec's definition to what the serializer emits: a list
// is loose if two of its items are separated by a blank line or an item
// directly contains two blocks separated by a blank line.
func (g *gen) isTight(b *blk) bool {
	if !b.loose {
		return true
	}
	if len(b.items) >= 2 {
		return false
	}
	for _, item := range b.items {
		if len(item) >= 2 {
			return false
		}
	}
	return true
}

// maybeUnclosed: a fenced code block that is the last block of a block quote or of the
// document may lack its closing fence; the end of the container closes it.
func (g *gen) maybeUnclosed(bs []*blk) {
	if n := len(bs); n > 0 && bs[n-1].k == kFenced && !g.no("fence:unclosed") && g.r.Intn(3) == 0 {
		bs[n-1].unclosed = true
		g.f("fence:unclosed")
	}
}

// Generate builds one document.
func Generate(r *core.Rand, p Profile) *Doc {
	if p.MaxNodes == 0 {
		p.MaxNodes = 40
	}
	g := &gen{r: r, p: p, feat: map[string]int{}, eol: "\n"}
	// decide reference definitions first so that uses can precede them
	var pre []*blk
	for k := r.Intn(3); k > 0; k-- {
		pre = append(pre, g.refDef())
	}
	if p.Depth == 0 {
		p.Depth = 3
	}
	if p.TopBlocks == 0 {
		p.TopBlocks = 5
	}
	top := g.blocks(r.Range(1, p.TopBlocks), p.Depth)
	// place the pre-decided definitions at random top-level positions
	for _, d := range pre {
		i := r.Intn(len(top) + 1)
		top = append(top[:i], append([]*blk{d}, top[i:]...)...)
	}
	// an indented block must not directly follow a list (it would continue the item) —
	// re-check after the insertion of definitions; a definition followed by a paragraph is fine.
	for i := 1; i < len(top); i++ {
		if (top[i].k == kIndented && (isList(top[i-1]) || top[i-1].k == kIndented)) || (isList(top[i]) && isList(top[i-1])) {
			top = append(top[:i], append([]*blk{g.paragraph(false)}, top[i:]...)...)
		}
	}
	g.maybeUnclosed(top)
	md := g.serialize(top)
	var sb strings.Builder
	first := true
	for _, b := range top {
		var one strings.Builder
		g.blockHTML(b, false, &one)
		if !first {
			sb.WriteString("\n\n")
		}
		first = false
		sb.WriteString(one.String())
	}
	return &Doc{Markdown: md, HTML: sb.String(), Features: g.feat, Nodes: g.nodes}
}
