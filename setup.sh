#!/usr/bin/env bash
# MANIFEST.setup_cmd: warm the build caches (std, -race) and build the harness once, offline.
set -eu
cd "$(dirname "$0")"
export GOFLAGS=-mod=mod GOPROXY=off GOSUMDB=off GOTOOLCHAIN=local
mkdir -p bin evidence replays work
cd harness
cp /repo/go.sum go.sum
go build -tags verif -o ../bin/cmcheck ./cmd/cmcheck
go build -tags verif -race -o ../bin/cmcheck-race ./cmd/cmcheck
../bin/cmcheck list
