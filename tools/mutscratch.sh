#!/usr/bin/env bash
# tools/mutscratch.sh <patch.diff> <Cxx> [<Cxx>...]
# Like trymutant.sh but never touches /repo or /verif's evidence: the library is copied to a
# scratch directory, the patch applied there, the harness built against the copy with a
# temporary -modfile, and the quick check run with a scratch verif-dir. Safe to run in parallel.
set -u
patch="$1"; [ "$patch" != "-" ] && patch="$(readlink -f "$1")"; shift   # "-": no patch (the committed HEAD of /repo, without uncommitted edits)
export GOFLAGS=-mod=mod GOPROXY=off GOSUMDB=off GOTOOLCHAIN=local
S=$(mktemp -d /tmp/mut.XXXXXX); trap 'rm -rf "$S"' EXIT
mkdir -p $S/repo $S/verif/evidence $S/verif/replays
git -C /repo archive HEAD | tar -x -C $S/repo
if [ "$patch" != "-" ]; then ( cd $S/repo && git init -q . 2>/dev/null; git -C $S/repo apply "$patch" ) || { echo "patch does not apply"; exit 3; }; fi
cp /verif/KNOWN_FINDINGS.txt $S/verif/
sed "s#=> /repo#=> $S/repo#" /verif/harness/go.mod > $S/go.mod; cp /verif/harness/go.sum $S/go.sum
tier="${TIER:-quick}"
( cd /verif/harness && go build -modfile=$S/go.mod -tags verif -o $S/cmcheck ./cmd/cmcheck ) || { echo "BUILD FAILED"; exit 2; }
for p in "$@"; do
  race=()
  if [ "$p" = C19 ]; then ( cd /verif/harness && go build -modfile=$S/go.mod -tags verif -race -o $S/cmcheck-race ./cmd/cmcheck ) && race=(--race-bin $S/cmcheck-race); fi
  out=$(VERIF_FIXTURES=/verif/fixtures $S/cmcheck run --property $p --tier $tier --seed ${VERIF_SEED:-1} --verif-dir $S/verif --work $S/work-$p "${race[@]}" 2>&1); rc=$?
  case $rc in
    1) echo "$p: CAUGHT  $(echo "$out" | grep -c '^VIOLATION') violation lines; $(echo "$out" | grep -m1 '^  \[' | cut -c1-260)";;
    0) echo "$p: MISSED  ($(echo "$out" | tail -1 | cut -c1-160))";;
    *) echo "$p: UNDECIDED (exit $rc) $(echo "$out" | tail -2 | cut -c1-300)"; echo "$out" > /tmp/undecided-$p-$$.log;;
  esac
done
