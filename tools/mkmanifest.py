#!/usr/bin/env python3
"""Regenerates /verif/MANIFEST.json from the table below (run from /verif)."""
import json, subprocess, sys

HOOK_COMMITS = ["4e8f345"]

CHECKS = {
 "C01": dict(
  technique="runtime monitor: tiling/offset/line oracle computed from the input bytes, observed on Parse and on streaming under recorded read schedules; hook invariants (bytes in = offset + held) at every NextBlock",
  text="Exploration: the oracle is total (decides any byte string), so it runs beside every execution of a seeded workload (exhaustive short strings over a 12-symbol alphabet, CR/NUL-heavy soup, all spec prefixes, multi-MiB prose). Held on the K executions observed; nothing is proved for inputs outside the workload.",
  note="Trusted: my re-computation of ranges/NUL replacement/line counts from the raw input; Go runtime. Aliasing judged for NUL-free input only (as stated).",
  ref="DESIGN.md section 6 C01"),
 "C02": dict(
  technique="runtime monitor: span invariants (valid, inside Source, inside parent, siblings ordered, root span shape, rune boundaries) asserted at every node of every tree the workload produces, via the public Node API",
  text="Exploration: a total structural oracle runs beside every Parse (and streaming+Extract+Rewrite on every 4th case) of a seeded workload: exhaustive strings over a 12-symbol inline alphabet, all spec prefixes, line-structured documents with inline constructs split across container lines, atom soup, mutated spec documents, pathological templates, well-formed inline trees with delimiter tokens moved / deleted / duplicated (constructs crossing each other), definition-like paragraphs cut into lines at every place inside containers with partly consumed tabs and hostile bytes, Markdown of model documents, documents on numeric thresholds. Held on the executions observed.",
  note="Trusted: my tree walk over Node.Child/ChildCount/Span. Zero-length spans are allowed; rune boundaries judged only for valid UTF-8 input.",
  ref="DESIGN.md section 6 C02"),
 "C03": dict(
  technique="runtime monitor: per-root-block byte coverage counter incremented by every leaf span (conservation: no byte twice, every letter/digit/non-ASCII byte once)",
  text="Exploration: conservation oracle over the same structural workload as C02; evidence reports leaves per kind and bytes accounted. Held on the executions observed.",
  note="Trusted: the reading of 'leaf' fixed in DESIGN (childless Text/RawHTML/CharacterReference/breaks/Indent inlines and ListMarker blocks).",
  ref="DESIGN.md section 6 C03"),
 "C05": dict(
  technique="runtime monitor: executable tree grammar and accessor-consistency rules checked at every node of trees from Parse and from streaming+Extract+Rewrite",
  text="Exploration: the grammar rules the statement lists are judged at every node (a destination, title or label anywhere but at the end of a link or image is a violation at any depth); doc-comment-only rules are recorded. Workload as C02 (incl. inline constructs crossing each other, model documents, definition-like paragraphs cut at every place) with streaming on every 2nd case. Held on the executions observed.",
  note="Trusted: my transcription of the statement's grammar; Indent admitted wherever the library's tab handling places it.",
  ref="DESIGN.md section 6 C05"),
 "C13": dict(
  technique="runtime monitor: per-kind shape predicate on Source[span] at every node, with a coverage gate of >= 1000 checked nodes per kind",
  text="Exploration: weakest-reading shape predicates for the 14 constructs the statement names, evaluated on every node of the structural workload. A run that saw fewer than 1000 nodes of any listed kind is inconclusive. Held on the executions observed.",
  note="Trusted: the predicates (DESIGN table C13).",
  ref="DESIGN.md section 6 C13"),
 "C04": dict(
  technique="runtime monitor with crash isolation: every entry point (Parse, streaming+Rewrite, Render under all configurations, AppendBlock, Format, Walk, all accessors) executed per input in child processes under panic capture, a per-case CPU-time budget (bounded progress) and an address-space cap; thorough adds a -race/checkptr sanitizer pass",
  text="Exploration: totality observed on a hostile seeded workload (invalid UTF-8, NUL, lone CR, every spec prefix, pathological nesting up to 16 KiB, prose up to 2 MiB). Liveness is restated as bounded progress (CPU budget >= 100x the worst measured cost); unbounded termination is out of reach for this family. Held on the executions observed.",
  note="Trusted: the supervisor (child CPU time via getrusage, re-run alone with 4x budget before reporting).",
  ref="DESIGN.md section 6 C04"),
 "C08": dict(
  technique="offline checker over recorded histories: a recording io.Reader logs every Read; the streamed result (blocks, trees, offsets, lines, reference map, terminal error and its stickiness) is compared with a reference execution Parse(delivered bytes); hook conservation invariant after every NextBlock",
  text="Exploration with exhaustive sub-spaces: all partitions into reads x both EOF styles x every fault point for all strings <= 5 (quick) / 6 (thorough) symbols over a 9-symbol alphabet and for sampled 7-13 byte documents; 8 schedules + fault sweeps on generated documents; after its error the faulty reader repeats it, says io.EOF or goes on delivering data (the parser has to latch the first error itself). Held on the histories observed.",
  note="Trusted: Parse as the reference execution (C01-C05 judge it independently), my fingerprint of the public API.",
  ref="DESIGN.md section 6 C08"),
 "C09": dict(
  technique="metamorphic runtime monitor: quote(D) and listitem(D, marker, N) are parsed and each contained block, rendered as a root in safe mode, is compared with the corresponding root block of D",
  text="Exploration: transformers applied to line-structured documents with multi-line inline constructs, tab-free soup, mutated spec documents and an exhaustive small alphabet; 1 quote + 2 list variants per D; contained blocks are compared on their rendering as roots, their kinds, and the reference map of their definitions. Held on the executions observed.",
  note="Trusted: my transformers (each line prefixed with '> '; list variant only under the stated preconditions) and the thematic-break regexp for the stated exception.",
  ref="DESIGN.md section 6 C09"),
 "C14": dict(
  technique="metamorphic runtime monitor: H(crlf(x)), H(cr(x)) vs H(x); Parse(pad+x) vs Parse(x) on fingerprint, offsets, lines, HTML; safe-mode H(x) vs H(x+LF) modulo layout whitespace",
  text="Exploration: three relations per input over every spec prefix (documents ending inside every construct), an exhaustive 10-symbol alphabet, line-structured documents, soup, mutated spec documents, model documents, definition-like paragraphs cut at every place and documents on numeric thresholds (999-character labels with line endings inside); two cases in three through Parse, the third through the streaming parser under 1-byte / random / CRLF-cutting read schedules. Held on the executions observed.",
  note="Trusted: the layout-whitespace normaliser (weak reading of 'insignificant whitespace', DESIGN C14).",
  ref="DESIGN.md section 6 C14"),
 "C16": dict(
  technique="runtime monitor: every root block is re-parsed alone from its Source (streaming + Rewrite with the document's reference map) and its tree fingerprint compared with the block as parsed in the document",
  text="Exploration over spec prefixes, exhaustive 13-symbol alphabet strings, line-structured documents, soup and mutations; the stated exception (paragraph/setext continuation of a definition) is skipped and counted. Held on the executions observed.",
  note="Trusted: fingerprint of the public API; reading of the exception in DESIGN C16.",
  ref="DESIGN.md section 6 C16"),
 "C07": dict(
  technique="runtime monitor: every safe-mode (and raw-free default-mode) output is tokenized by an independent WHATWG data-state tokenizer and checked against the renderer's element/attribute vocabulary, nesting discipline, absence of comment/doctype tokens and '<' in text, and well-formedness of every character reference",
  text="Exploration: injection payloads placed by templates into every attribute-bound position (destination, title, alt text, info string, autolink, definition, list start), injection soup, HTML soup, line-structured and mutated documents, exhaustive short strings over an injection alphabet; 3-5 renderer configurations per input. Held on the outputs observed.",
  note="Trusted: my tokenizer (DESIGN Appendix B), the HTML5 entity-name fixture generated from python3.",
  ref="DESIGN.md section 6 C07"),
 "C17": dict(
  technique="runtime monitor: filtered vs unfiltered output compared by a two-pointer '<' -> '&lt;' matcher, and the filtered output tokenized by an independent WHATWG data-state tokenizer whose start-tag names are put to the predicate",
  text="Exploration: exhaustive strings over {<,>,!,-,?,/,script,SP,\",a,LF} up to 5/6 symbols, templates mixing comments/CDATA/PIs/declarations/stray '<'/quoted '>' with raw-text elements as HTML blocks and inline, HTML soup; 5 predicates (GFM, all, none, 2 name sets) per tree. Held on the outputs observed.",
  note="Trusted: my tokenizer held in the data state; name-set predicates over [a-z0-9] names.",
  ref="DESIGN.md section 6 C17"),
 "C18": dict(
  technique="offline checker over recorded events: Walk callbacks record (Pre/Post, node, parent, parent block, index); the list is compared with a reference traversal under the same seeded policy (prune set, abort point, nil callbacks, custom child functions); cursor invariants asserted at each event",
  text="Exploration: 16 (quick) / 200 (thorough) policies per parsed tree over spec, generated and pathological (depth > 2000) trees; every child-function mode on every tree; walks started at the root blocks, at a virtual root over all of them and at two inner nodes per tree. Held on the event lists observed.",
  note="Trusted: the 20-line recursive reference traversal.",
  ref="DESIGN.md section 6 C18"),
 "C19": dict(
  engine="cmcheck-race",
  technique="Go race detector over a stress workload (concurrent Parse of distinct inputs, also as adjacent sub-slices of one buffer and with NUL bytes; concurrent Render in all configurations through shared and private renderers, AppendBlock, Format, Walk - also with pruning and ended early by Post -, accessors on one shared tree, yields injected in client callbacks), plus a result-equality monitor against sequential results and a tree-unchanged check; race reports counted from GORACE logs and de-duplicated by entry-point pair",
  text="Exploration: 1 200 (quick) / 20 000 (thorough) rounds of 32+16+48 goroutines, GOMAXPROCS alternating 2/16; evidence reports operations per kind, overlapping operations and the high-water mark of simultaneous library calls; a run without overlap or without the -race build is inconclusive. Interleavings are sampled, not enumerated.",
  note="Trusted: the Go race detector (sees only executed accesses).",
  ref="DESIGN.md section 6 C19"),
 "C15": dict(
  technique="runtime monitor over build-tag-guarded hooks: each unexported line recognizer and byte classifier is called directly and compared with a regexp / table transcription of the CommonMark 0.30 definition; each line is also parsed as a one-line document to tie the recognizer to its call site; NormalizeURI charset + idempotence and IsEmailAddress vs the spec regexp",
  text="Exploration with exhaustive sub-spaces: all 256 byte values for every classifier; all lines up to 6-10 symbols over per-rule alphabets; all URI / e-mail strings up to 5-8 symbols; every code point of all 17 planes through NormalizeURI; plus random longer lines and addresses with 62/63/64-character labels. Held on the calls observed, with one listed known finding (KF01).",
  note="Trusted: my regexps for sections 4.1-4.5 and 5.2, Go's unicode tables for general categories (same tables as the library).",
  ref="DESIGN.md section 6 C15"),
 "C11": dict(
  technique="runtime monitor with a reference model: an executable transcription of the spec's delimiter-run rules and process-emphasis procedure without the search-bound optimisation runs beside the library on every paragraph; flanking flags are also compared run by run through a build-tag-guarded hook",
  text="Exploration with exhaustive sub-spaces: all strings up to 8 (quick) / 10 (thorough) symbols over {*,_,a,SP,.} and up to 6/7 over the 8-symbol alphabet with Unicode punctuation/space/letter, each as a bare paragraph and wrapped x...x; plus 1 M / 50 M random strings of 11-60 symbols biased to long runs. Held on the paragraphs observed.",
  note="Trusted: refimpl/emph (validated at development time on the 108 applicable spec examples), Go's unicode tables.",
  ref="DESIGN.md section 6 C11"),
 "C12": dict(
  technique="runtime monitor with a reference model: directed documents with competing definitions (unique destinations/titles) and one use per link form are judged against my own label normaliser (casefold fixture from python3); on every tree of the general workload the reference map is checked for closure, normal-form keys, equality with Extract in order and with an independent tree-walk extraction",
  text="Exploration: 300 k (quick) / 15 M (thorough) directed matching/precedence documents over labels with multi-character folds, whitespace variants, escaped brackets, non-matching neighbours and lengths on both sides of the 999-character limit (one-, two- and three-byte letters); closure on spec prefixes, line-structured documents, soup and mutations. Held on the executions observed.",
  note="Trusted: refimpl/label and fixtures/casefold.tsv (Unicode 14.0), restricted per rune to code points on which it agrees with golang.org/x/text (Unicode 13).",
  ref="DESIGN.md section 6 C12"),
 "C10": dict(
  technique="runtime monitor with a reference model: an independent ~300-line renderer over the public node API produces fixed / raw / alternative segments for every root block and renderer configuration; the library's bytes must be an instance of them; determinism, tree/Source immutability, block joining and the default-configuration shortcut are asserted on the same executions",
  text="Exploration: 8 sampled configurations per tree (all 42 on every 16th) over spec prefixes, injection templates, line-structured documents, inline/HTML/injection soup and mutations. Held on the renderings observed.",
  note="Trusted: refimpl/render and its stated conventions (escape spellings, my own percent-encoder, alt-text rule, either spelling for end tags of filtered elements and for character references in text).",
  ref="DESIGN.md section 6 C10"),
 "C06": dict(
  technique="runtime monitor with a reference model: abstract documents are serialised with random legal spelling choices and the library's rendering is compared, token by token (independent tokenizer, character references decoded), with the HTML obtained by structural recursion over the abstract document; plus two sub-monitors with trivial oracles (escape_all, code_verbatim)",
  text="Exploration: 300 k (quick) / 20 M (thorough) model documents (all block kinds incl. nested tight/loose lists, quotes, HTML blocks, definitions; all inline kinds), each third also as CRLF, a fifth read through the streaming parser under small random / 1-byte / CRLF-cutting reads; 200 k escape-all texts in 3 contexts; 100 k code blocks in 6 contexts x LF/CRLF. The model was calibrated at development time against goldmark (tools/modelcal), every disagreement resolved by the spec text. Held on the documents observed.",
  note="Trusted: harness/model (serializer emits only spellings whose meaning the spec fixes; DESIGN Appendix C), my tokenizer. Bounds: <= 40 nodes per document, nesting <= 3 (profile deep: 160 nodes, nesting 6); emphasis is written balanced and space-separated only (the delimiter algorithm is C11's subject).",
  ref="DESIGN.md section 6 C06"),
 "C20": dict(
  technique="runtime monitor with fault injection at the client boundary: a recording io.Writer fails at its j-th call (every j up to 400 calls, Write and WriteString paths, short writes) and the monitor checks the returned error by identity and that no call follows; healthy-writer determinism (also across histories: another document is formatted between the two runs) and tree immutability on every input; metamorphic round trip (HTML preserved, Format idempotent) on canonical-style model documents and on the witnesses of repaired formatter findings",
  text="Exploration: clause 1 on spec prefixes, line-structured, soup, mutated and pathological documents with full writer-fault sweeps on a quarter of them; clause 2 on 300 k (quick) / 15 M (thorough) canonical-style documents over the construct set fixed in DESIGN C20. Held on the executions observed.",
  note="Trusted: the model's canonical profile; my tokenizer for the HTML comparison.",
  ref="DESIGN.md section 6 C20"),
}

NOT_YET = {}

def main():
    props = [json.loads(l) for l in open("properties.jsonl")]
    checks, na = [], []
    for p in props:
        pid = p["id"]
        if pid in CHECKS:
            c = CHECKS[pid]
            checks.append({
                "property_id": pid,
                "quick_cmd": f"./check {pid} quick",
                "thorough_cmd": f"./check {pid} thorough",
                "evidence_file": f"evidence/{pid}.json",
                "replay_cmd_template": f"./check {pid} quick --replay {{path}}",
                "engine": c.get("engine", "cmcheck"),
                "level_claimed": {"category": "exploration", "text": c["text"], "design_ref": c["ref"]},
                "level_note": c["note"],
                "technique": c["technique"],
            })
        else:
            na.append({"property_id": pid, "reason": NOT_YET.get(pid, "monitor designed (DESIGN.md section 6) but not yet built in this tree; not claimed until its check runs clean")})
    m = {
        "version": 1,
        "setup_cmd": "./setup.sh",
        "hooks": {
            "guard": "verif",
            "enable": "go build -tags verif (harness module /verif/harness replaces zombiezen.com/go/commonmark with /repo)",
            "baseline_off_cmd": "cd /repo && GOFLAGS=-mod=mod GOPROXY=off GOSUMDB=off go test -json -vet=off -count=1 -timeout 25m ./...",
            "source_commits": HOOK_COMMITS,
            "add_only": True,
        },
        "engines": [
            {"name": "cmcheck", "path": "harness/cmd/cmcheck", "serves_properties": [c["property_id"] for c in checks if c["engine"] == "cmcheck"],
             "kind_free_text": "Go harness: seeded workload generators, per-property runtime monitors (oracles over the public API and verif-tagged hooks), child-process batches with CPU-time budgets, evidence and replay files"},
            {"name": "cmcheck-race", "path": "harness/cmd/cmcheck (go build -race)", "serves_properties": [c["property_id"] for c in checks if c["engine"] == "cmcheck-race"] ,
             "kind_free_text": "the same harness built with the Go race detector (implies checkptr) for C19 and the sanitizer pass of C04 thorough"},
        ],
        "checks": checks,
        "not_applicable": na,
        "notes": "Family: runtime monitoring and sanitizers. Every check rebuilds the harness from /repo's working tree with -tags verif. Exit 0 held / 1 VIOLATION / 2 could not decide. Known findings: KNOWN_FINDINGS.txt.",
    }
    json.dump(m, open("MANIFEST.json", "w"), indent=1)
    open("MANIFEST.json", "a").write("\n")
    try:
        import jsonschema
        jsonschema.validate(m, json.load(open("/root/.vp/MANIFEST.schema.json")))
        print("MANIFEST.json valid;", len(checks), "checks,", len(na), "not_applicable")
    except ImportError:
        print("jsonschema not available; not validated")

if __name__ == "__main__":
    main()
