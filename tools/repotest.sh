#!/usr/bin/env bash
# runs the repository's own suite with the verif tag off (and a build with it on)
export GOFLAGS=-mod=mod GOPROXY=off GOSUMDB=off GOTOOLCHAIN=local
cd /repo && go build ./... && go vet -tags verif . >/dev/null 2>&1; go build -tags verif ./... && go test -count=1 ./... 2>&1 | tail -5
