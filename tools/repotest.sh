#!/usr/bin/env bash
# Runs the repository's own suite with the verif tag off (and a build with it on) and compares
# the result with /root/.vp/BASELINE.json: every baseline test must pass, a skip is not a pass.
export GOFLAGS=-mod=mod GOPROXY=off GOSUMDB=off GOTOOLCHAIN=local
cd /repo && go build ./... && go build -tags verif ./... || exit 1
go test -json -vet=off -count=1 -timeout 25m ./... > /tmp/repotest.json 2>&1
python3 /verif/tools/baselinecmp.py /tmp/repotest.json
