#!/usr/bin/env python3
"""tools/seedtable.py: rewrites seeded/RESULTS.md from every seeded/<id>/meta.json.

The verdict of a change is the most recent run of its own property's quick check against it:
a log under /tmp/seedsweep/<id>.log (written by tools/seedsweep.sh or a targeted re-run, and then
copied into meta.json as latest_check_results), else meta.json's latest_check_results, else the
check_results recorded when the change was confirmed (tools/seedconfirm.sh)."""
import json, glob, os, subprocess

repo = subprocess.run(['git', '-C', '/repo', 'rev-parse', '--short', 'HEAD'], capture_output=True, text=True).stdout.strip()
verif = subprocess.run(['git', '-C', '/verif', 'rev-parse', '--short', 'HEAD'], capture_output=True, text=True).stdout.strip()

# changes that the check of their own property does not report, and why (DESIGN section 16)
other = {
    'C10-a': 'by design: C10 accepts either spelling of the end tag of a rejected element',
    'C10-c': 'not a C10 violation (output stays canonical); C17 catches it',
    'C10-f': 'by design: which `<` a predicate escapes is C17\'s subject; C17 catches it',
    'C10-j': 'by design, as C10-f; C17 catches it',
    'C10-k': 'by design, as C10-f; C17 catches it',
    'C06-i': 'the delimiter algorithm is C11\'s subject (the model writes balanced emphasis only); C11 catches it',
    'C05-i': 'Indent is a phrasing inline under C05\'s reading; the rendered spaces are a C06 violation and C06 catches it',
    'C15-k': 'the recogniser is unchanged, only its use across lines; C06 catches it (fences of 254-262 characters)',
}

rows = []
for d in sorted(glob.glob('/verif/seeded/C*-*')):
    sid = os.path.basename(d)
    prop = sid.split('-')[0]
    mp = d + '/meta.json'
    m = json.load(open(mp)) if os.path.exists(mp) else {
        'property': prop, 'variant': sid.split('-')[1],
        'source': 'independent sub-agent given only the property text and a scratch worktree',
        'needs_to_manifest': open(d + '/README.md').read()[:1500] if os.path.exists(d + '/README.md') else '',
        'confirmed': 'demo passes on the clean tree, repository suite passes with the patch, demo fails with the patch',
        'check_results': []}
    log = '/tmp/seedsweep/%s.log' % sid
    if os.path.exists(log):
        lines = [l.strip()[:400] for l in open(log) if l.startswith(prop + ':')]
        if lines:
            m['latest_check_results'] = {'repo_commit': repo, 'verif_commit': verif, 'results': lines}
            json.dump(m, open(mp, 'w'), indent=1)
    res = (m.get('latest_check_results') or {}).get('results') or m.get('check_results', [])
    own = [r for r in res if r.startswith(prop + ':')]
    line = own[-1] if own else '(no run recorded)'
    verdict = 'CAUGHT' if 'CAUGHT' in line else 'MISSED' if 'MISSED' in line else '?'
    note = line.split(verdict, 1)[-1].strip() if verdict != '?' else line
    if sid in other and verdict != 'CAUGHT':
        note = other[sid]
    rows.append((sid, prop, verdict, note[:170].replace('|', '/').replace('\t', ' ').replace('`', "'")))

with open('/verif/seeded/RESULTS.md', 'w') as f:
    f.write('# Seeded changes vs. the quick check of their own property\n\n')
    f.write('Written by tools/seedtable.py at /repo commit %s, /verif commit %s (each row: the most recent run recorded in the change\'s meta.json).\n\n' % (repo, verif))
    c = sum(1 for r in rows if r[2] == 'CAUGHT')
    f.write('%d changes, %d caught by the quick check of the property they were written against; the others are explained in their row and in DESIGN.md section 16.\n\n' % (len(rows), c))
    f.write('| id | property | verdict | first violation reported / note |\n|---|---|---|---|\n')
    for r in rows:
        f.write('| %s | %s | %s | `%s` |\n' % r)
print(len(rows), 'rows;', sum(1 for r in rows if r[2] == 'CAUGHT'), 'caught;', [r[0] for r in rows if r[2] != 'CAUGHT'])
