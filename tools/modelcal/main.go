// Command modelcal is a development-time calibrator (not used by any registered
// check): it runs the C06 document model against goldmark, an independent
// CommonMark implementation found in the module cache, to find mistakes in the
// model. Disagreements are resolved by reading the spec, never by majority.
package main

import (
	"bytes"
	"flag"
	"fmt"
	"os"
	"strings"
	"zombiezen.com/go/commonmark/format"

	"github.com/yuin/goldmark"
	ghtml "github.com/yuin/goldmark/renderer/html"
	"verif/core"
	"verif/model"
	"verif/mon"
)

func main() {
	n := flag.Int("n", 100000, "documents")
	seed := flag.Uint64("seed", 1, "seed")
	show := flag.Int("show", 5, "examples to print")
	canonical := flag.Bool("canonical", false, "fmt-canonical profile")
	grep := flag.String("grep", "", "only show differences containing this")
	maxlen := flag.Int("maxlen", 100000, "only show documents up to this many bytes")
	fmtMode := flag.Bool("fmt", false, "check Format clause 2 instead of comparing with goldmark")
	no := flag.String("no", "", "comma-separated constructs to exclude")
	flag.Parse()
	if *fmtMode {
		fmtCheck(*n, *seed, *show, *no)
		return
	}
	md := goldmark.New(goldmark.WithRendererOptions(ghtml.WithUnsafe()))
	bad := 0
	shown := 0
	sig := map[string]int{}
	for i := 0; i < *n; i++ {
		r := core.NewRand(core.Mix(*seed, uint64(i)))
		prof := model.Profile{Canonical: *canonical, No: map[string]bool{}}
		for _, x := range strings.Split(*no, ",") {
			if x != "" {
				prof.No[x] = true
			}
		}
		d := model.Generate(r, prof)
		var buf bytes.Buffer
		if !convert(md, []byte(d.Markdown), &buf) {
			sig["(goldmark panicked)"]++
			continue
		}
		ok, diff := mon.CompareHTMLTokensWeak([]byte(d.HTML), buf.Bytes())
		if !ok {
			// triage: what does the library under test say?
			blocks, refs, _ := core.ParseCopy([]byte(d.Markdown))
			lib := core.RenderDefault(blocks, refs)
			libModel, _ := mon.CompareHTMLTokensWeak([]byte(d.HTML), lib)
			libGold, _ := mon.CompareHTMLTokensWeak(buf.Bytes(), lib)
			switch {
			case libModel:
				diff = "[lib=model] " + diff
			case libGold:
				diff = "[lib=goldmark] " + diff
			default:
				diff = "[all differ] " + diff
			}
			bad++
			if len(diff) > 70 {
				diff = diff[:70]
			}
			sig[diff]++
			if (*grep == "" || bytes.Contains([]byte(diff), []byte(*grep))) && shown < *show && len(d.Markdown) <= *maxlen {
				shown++
				fmt.Printf("--- doc %d\n%q\n--- model\n%s\n--- goldmark\n%s\n--- diff: %s\n", i, d.Markdown, d.HTML, buf.String(), diff)
			}
		}
	}
	fmt.Fprintf(os.Stderr, "%d / %d disagree with goldmark\n", bad, *n)
	for k, v := range sig {
		if v > 0 {
			fmt.Fprintf(os.Stderr, "  %6d  %s\n", v, k)
		}
	}
}

func convert(md goldmark.Markdown, src []byte, buf *bytes.Buffer) (ok bool) {
	defer func() {
		if recover() != nil {
			ok = false
		}
	}()
	if err := md.Convert(src, buf); err != nil {
		panic(err)
	}
	return true
}

func fmtCheck(n int, seed uint64, show int, no string) {
	prof := model.Profile{Canonical: true, No: map[string]bool{}}
	for _, x := range strings.Split(no, ",") {
		if x != "" {
			prof.No[x] = true
		}
	}
	bad, shown := 0, 0
	byFeat := map[string]int{}
	whys := map[string]int{}
	total := map[string]int{}
	for i := 0; i < n; i++ {
		r := core.NewRand(core.Mix(seed, uint64(i)))
		d := model.Generate(r, prof)
		blocks, refs, _ := core.ParseCopy([]byte(d.Markdown))
		var f1 bytes.Buffer
		format.Format(&f1, blocks)
		b1, r1, _ := core.ParseCopy(f1.Bytes())
		h0, h1 := core.RenderDefault(blocks, refs), core.RenderDefault(b1, r1)
		var f2 bytes.Buffer
		format.Format(&f2, b1)
		why := ""
		if ok, diff := mon.CompareHTMLTokens(h0, h1); !ok {
			why = "html: " + diff
		} else if !bytes.Equal(f1.Bytes(), f2.Bytes()) {
			why = "not idempotent"
		}
		for k := range d.Features {
			total[k]++
		}
		if why != "" {
			bad++
			w := why
			if len(w) > 90 {
				w = w[:90]
			}
			whys[w]++
			for k := range d.Features {
				byFeat[k]++
			}
			if shown < show && len(d.Markdown) < 160 {
				shown++
				fmt.Printf("--- doc %d: %s\n%s--- formatted\n%s--- again\n%s\n", i, why, d.Markdown, f1.String(), f2.String())
			}
		}
	}
	fmt.Fprintf(os.Stderr, "%d / %d fail clause 2\n", bad, n)
	for k, v := range whys {
		fmt.Fprintf(os.Stderr, "WHY %6d %s\n", v, k)
	}
	for k, v := range byFeat {
		fmt.Fprintf(os.Stderr, "  %-20s %6d of %6d docs with it (%.0f%%)\n", k, v, total[k], 100*float64(v)/float64(total[k]))
	}
}
