module modelcal

go 1.20

require (
	github.com/yuin/goldmark v1.4.13
	verif v0.0.0
	zombiezen.com/go/commonmark v0.0.0
)

require (
	golang.org/x/net v0.8.0 // indirect
	golang.org/x/text v0.9.0 // indirect
)

replace verif => ../../harness

replace zombiezen.com/go/commonmark => /repo
