#!/usr/bin/env python3
"""tools/baselinecmp.py <go-test-json>: compares a run of the repository's suite (guard off) with
/root/.vp/BASELINE.json: every test of stable_pass must have passed (a skip is not a pass)."""
import json,sys
passed=set(); failed=set(); skipped=set()
for l in open(sys.argv[1]):
    try: e=json.loads(l)
    except Exception: continue
    if e.get('Test') and e.get('Action') in('pass','fail','skip'):
        k=e['Package']+'::'+e['Test']
        {'pass':passed,'fail':failed,'skip':skipped}[e['Action']].add(k)
sp=set(json.load(open('/root/.vp/BASELINE.json'))['stable_pass'])
missing=sorted(sp-passed)
print('passed',len(passed),'failed',len(failed),'skipped',len(skipped),'baseline stable_pass',len(sp),'not passed now:',len(missing))
for m in missing[:20]: print('  ',m,'(skipped)' if m in skipped else '(failed)' if m in failed else '(absent)')
sys.exit(1 if missing or failed else 0)
