#!/usr/bin/env bash
# tools/mutone.sh <patch.diff|-> <Cxx> <go-quoted input without the quotes>
# Builds the harness against a scratch copy of /repo HEAD with the patch applied ("-": no
# patch) and replays the monitor of one property verbosely on one input.
set -u
patch="$1"; prop="$2"; input="$3"
export GOFLAGS=-mod=mod GOPROXY=off GOSUMDB=off GOTOOLCHAIN=local
S=$(mktemp -d /tmp/mut1.XXXXXX); trap 'rm -rf "$S"' EXIT
mkdir -p $S/repo
git -C /repo archive HEAD | tar -x -C $S/repo
if [ "$patch" != "-" ]; then ( cd $S/repo && git init -q . 2>/dev/null; git -C $S/repo apply "$(readlink -f "$patch")" ) || { echo "patch does not apply"; exit 3; }; fi
sed "s#=> /repo#=> $S/repo#" /verif/harness/go.mod > $S/go.mod; cp /verif/harness/go.sum $S/go.sum
( cd /verif/harness && go build -modfile=$S/go.mod -tags verif -o $S/cmcheck ./cmd/cmcheck ) || { echo "BUILD FAILED"; exit 2; }
python3 - "$prop" "$input" > $S/case.json <<'PY'
import sys,json,base64,ast
prop,inp=sys.argv[1:3]
b=ast.literal_eval('b"'+inp.replace('"','\\"')+'"')
print(json.dumps({"property":prop,"gen":"manual","profile":"","index":0,"case_seed":12345,"note":"manual","code":"","msg":"","input_b64":base64.b64encode(b).decode(),"tier":"quick","seed":1}))
PY
VERIF_FIXTURES=/verif/fixtures $S/cmcheck replay --file $S/case.json --verif-dir /verif
