#!/usr/bin/env bash
# tools/seedconfirm.sh <Cxx> <a|b> [extra checks...]
# Confirms a sub-agent's seeded change in its scratch worktree (/tmp/wt-Cxx): suite green with
# the patch, demo fails with it and passes without it. Then stores it under /verif/seeded/<Cxx>-<v>/
# and runs the property's quick check (plus extra checks) against it via tools/trymutant.sh.
set -u
prop="$1"; v="$2"; shift 2
wt=${WT_PREFIX:-/tmp/wt}-$prop; sd=$wt/_seed/$v
export GOFLAGS=-mod=mod GOPROXY=off GOSUMDB=off GOTOOLCHAIN=local
[ -f $sd/patch.diff ] || { echo "no $sd/patch.diff"; exit 3; }
cd $wt && git checkout -q -- . && git clean -fdq -e _seed
demo=$(ls $sd/*_test.go | head -1)
ddir=${DEMO_DIR:-.}; rflag=""; [ "${RACE:-0}" = 1 ] && rflag="-race"
cp $demo $wt/$ddir/seedx_test.go
go test $rflag -count=1 ./$ddir >/dev/null 2>&1; base_rc=$?
git apply $sd/patch.diff || { echo "patch does not apply"; exit 3; }
go build ./... || { echo "does not build"; exit 3; }
rm -f $ddir/seedx_test.go
go test -count=1 ./... >/tmp/seed-suite.log 2>&1; suite_rc=$?
cp $demo $wt/$ddir/seedx_test.go
go test $rflag -count=1 ./$ddir >/tmp/seed-demo.log 2>&1; demo_rc=$?
git checkout -q -- . && git clean -fdq -e _seed
echo "$prop-$v: demo on clean tree rc=$base_rc (want 0); suite with patch rc=$suite_rc (want 0); demo with patch rc=$demo_rc (want != 0)"
if [ $base_rc -ne 0 ] || [ $suite_rc -ne 0 ] || [ $demo_rc -eq 0 ]; then echo "NOT CONFIRMED"; tail -5 /tmp/seed-suite.log /tmp/seed-demo.log; exit 4; fi
dst=/verif/seeded/$prop-${STORE_AS:-$v}; mkdir -p $dst
cp $sd/patch.diff $dst/patch.diff; cp $demo $dst/demo_test.go; cp $sd/README.md $dst/README.md 2>/dev/null
cd /verif
res=$(tools/mutscratch.sh $dst/patch.diff $prop "$@" 2>&1)
echo "$res"
python3 - "$prop" "$v" "$res" <<'PY'
import json,sys,os
prop,v,res=sys.argv[1:4]
dst=f"/verif/seeded/{prop}-"+os.environ.get("STORE_AS", v)
readme=open(dst+"/README.md").read() if os.path.exists(dst+"/README.md") else ""
json.dump({"property":prop,"variant":v,"source":"independent sub-agent given only the property text and a scratch worktree",
 "needs_to_manifest":readme[:1500],
 "confirmed":"demo passes on the clean tree, repository suite passes with the patch, demo fails with the patch (tools/seedconfirm.sh)",
 "check_results":res.strip().split("\n")}, open(dst+"/meta.json","w"), indent=1)
PY
