#!/usr/bin/env bash
# tools/trymutant.sh <patch.diff> <Cxx> [<Cxx> ...]
# Applies a patch to /repo's working tree, runs the quick checks named, restores /repo
# and the evidence files. Prints one line per check: CAUGHT (exit 1) / MISSED (exit 0) / UNDECIDED (exit 2).
# TEST=1 also runs the repository's own suite with the patch applied.
set -u
patch="$(readlink -f "$1")"; shift
cd /verif
if [ -n "$(git -C /repo status --porcelain)" ]; then echo "/repo not clean"; exit 3; fi
if ! git -C /repo apply "$patch"; then echo "patch does not apply"; exit 3; fi
trap 'git -C /repo checkout -- . ; git -C /repo clean -fdq' EXIT
export GOFLAGS=-mod=mod GOPROXY=off GOSUMDB=off GOTOOLCHAIN=local
if [ "${TEST:-0}" = 1 ]; then
  ( cd /repo && go build ./... && go test -count=1 ./... >/tmp/mutant-test.log 2>&1 ) && echo "repo suite: PASS" || { echo "repo suite: FAIL"; tail -5 /tmp/mutant-test.log; }
fi
tier="${TIER:-quick}"
for p in "$@"; do
  cp -f evidence/$p.json /tmp/evidence-$p.json.bak 2>/dev/null
  out=$(VERIF_SEED=${VERIF_SEED:-1} ./check $p $tier 2>&1); rc=$?
  cp -f /tmp/evidence-$p.json.bak evidence/$p.json 2>/dev/null
  case $rc in
    1) echo "$p: CAUGHT  $(echo "$out" | grep -c '^VIOLATION') violation lines; $(echo "$out" | grep -m1 '^  \[' | cut -c1-220)";;
    0) echo "$p: MISSED";;
    *) echo "$p: UNDECIDED (exit $rc) $(echo "$out" | tail -2 | cut -c1-300)";;
  esac
done
