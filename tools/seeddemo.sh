#!/usr/bin/env bash
# tools/seeddemo.sh [ids...]: re-confirms every seeded change against the CURRENT /repo HEAD in a
# scratch copy: patch applies, repository suite passes with it, its demonstration fails with it
# and passes without it. Prints one line per change.
export GOFLAGS=-mod=mod GOPROXY=off GOSUMDB=off GOTOOLCHAIN=local
cd /verif
ids=("$@"); [ ${#ids[@]} -eq 0 ] && ids=($(ls seeded | grep -E '^C[0-9]+-'))
one() {
  id=$1; S=$(mktemp -d /tmp/sd.XXXXXX); trap 'rm -rf "$S"' RETURN
  git -C /repo archive HEAD | tar -x -C $S
  demo=/verif/seeded/$id/demo_test.go
  pkg=$(grep -m1 '^package ' $demo | awk '{print $2}')
  case $pkg in format|format_test) dir=format;; *) dir=.;; esac
  rflag=""; grep -q '"sync"' $demo && rflag="-race"
  cp $demo $S/$dir/seedx_test.go
  ( cd $S && go test $rflag -count=1 ./$dir >/dev/null 2>&1 ); base=$?
  rm $S/$dir/seedx_test.go
  ( cd $S && git init -q . && git apply /verif/seeded/$id/patch.diff ) 2>/dev/null || { echo "$id: PATCH DOES NOT APPLY"; return; }
  ( cd $S && go test -count=1 ./... >/dev/null 2>&1 ); suite=$?
  cp $demo $S/$dir/seedx_test.go
  ( cd $S && go test $rflag -count=1 ./$dir >/dev/null 2>&1 ); dm=$?
  v=OK; { [ $base -ne 0 ] || [ $suite -ne 0 ] || [ $dm -eq 0 ]; } && v="NOT-CONFIRMED"
  echo "$id: $v (demo clean rc=$base want 0; suite+patch rc=$suite want 0; demo+patch rc=$dm want !=0)"
}
export -f one
printf '%s\n' "${ids[@]}" | xargs -P ${PAR:-6} -I{} bash -c 'one {}'
